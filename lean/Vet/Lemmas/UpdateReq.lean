/- Provenance of required entries: every bit recorded in a `Required` map was put there by a
successful search whose path contains an origin standing for that entry. -/
import Vet.Lemmas.ResolveBridge
import Vet.Props.C05
import Vet.Lemmas.UpdateKeep
namespace Vet

/-- entry `e` was recorded for criterion `c` by a successful search on `g` -/
def Prov (g : Graph) (mode : Mode) (e : ReqEntry) (c : Nat) : Prop :=
  ∃ ver path o, search g c ver mode = .ok path ∧ o ∈ path ∧ e ∈ originEntries o

/-- every entry of the map has a bit set, and every set bit satisfies `P` -/
def RInv (P : ReqEntry → Nat → Prop) (r : Required) : Prop :=
  ∀ e b, (e, b) ∈ r → (∃ c, b.testBit c = true) ∧ ∀ c, b.testBit c = true → P e c

theorem RInv.nil (P : ReqEntry → Nat → Prop) : RInv P [] := fun _ _ h => nomatch h

theorem get?_mem {r : Required} {e : ReqEntry} {b : CSet} (h : r.get? e = some b) : (e, b) ∈ r := by
  induction r with
  | nil => cases h
  | cons a rest ih =>
    obtain ⟨e', s⟩ := a
    simp only [Required.get?] at h
    split at h
    · rename_i he
      cases h
      subst he
      exact List.mem_cons_self
    · exact List.mem_cons_of_mem _ (ih h)

theorem addEntry_inv {P : ReqEntry → Nat → Prop} {r : Required} {e : ReqEntry} {c : Nat}
    (hr : RInv P r) (hp : P e c) : RInv P (addEntry r e c) := by
  induction r with
  | nil =>
    intro e' b hmem
    simp only [addEntry, List.mem_singleton, Prod.mk.injEq] at hmem
    obtain ⟨rfl, rfl⟩ := hmem
    refine ⟨⟨c, (testBit_single c c).2 rfl⟩, fun c' hc' => ?_⟩
    cases (testBit_single c c').1 hc'
    exact hp
  | cons a rest ih =>
    obtain ⟨e0, s⟩ := a
    have hrest : RInv P rest := fun e' b h => hr e' b (List.mem_cons_of_mem _ h)
    have hhead := hr e0 s List.mem_cons_self
    intro e' b hmem
    simp only [addEntry] at hmem
    split at hmem
    · rename_i he
      rcases List.mem_cons.1 hmem with h | h
      · cases h
        subst he
        refine ⟨⟨c, by rw [testBit_set]; exact Or.inr rfl⟩, fun c' hc' => ?_⟩
        rw [testBit_set] at hc'
        rcases hc' with hc' | hc'
        · exact hhead.2 c' hc'
        · subst hc'; exact hp
      · exact hrest e' b h
    · rcases List.mem_cons.1 hmem with h | h
      · cases h
        exact hhead
      · exact ih hrest e' b h

theorem addEntries_inv {P : ReqEntry → Nat → Prop} {c : Nat} (es : List ReqEntry) {r : Required}
    (hr : RInv P r) (hp : ∀ e ∈ es, P e c) :
    RInv P (es.foldl (fun r e => addEntry r e c) r) := by
  induction es generalizing r with
  | nil => exact hr
  | cons e rest ih =>
    simp only [List.foldl_cons]
    exact ih (addEntry_inv hr (hp e List.mem_cons_self))
      (fun e' h => hp e' (List.mem_cons_of_mem _ h))

theorem addPath_inv {P : ReqEntry → Nat → Prop} {c : Nat} (path : List Origin) {r : Required}
    (hr : RInv P r) (hp : ∀ o ∈ path, ∀ e ∈ originEntries o, P e c) :
    RInv P (addPath r path c) := by
  unfold addPath
  induction path generalizing r with
  | nil => exact hr
  | cons o rest ih =>
    simp only [List.foldl_cons]
    exact ih (addEntries_inv _ hr (hp o List.mem_cons_self))
      (fun o' h => hp o' (List.mem_cons_of_mem _ h))

theorem requiredForPkg_inv {g : Graph} {m : Mapper} {ver : Nat} {mode : Mode} (cs : List Nat)
    {r r' : Required} (hr : RInv (Prov g mode) r)
    (h : requiredForPkg g m ver mode cs r = .ok (some r')) : RInv (Prov g mode) r' := by
  induction cs generalizing r with
  | nil =>
    simp only [requiredForPkg] at h
    cases h
    exact hr
  | cons c rest ih =>
    simp only [requiredForPkg] at h
    split at h
    · cases h
    · cases h
    · rename_i path hs
      exact ih (addPath_inv path hr (fun o ho e he => ⟨ver, path, o, hs, ho, he⟩)) h

theorem requiredForPkgs_inv {g : Graph} {m : Mapper} {mode : Mode} (pkgs : List (Nat × CSet))
    {r r' : Required} (hr : RInv (Prov g mode) r)
    (h : requiredForPkgs g m mode pkgs r = .ok (some r')) : RInv (Prov g mode) r' := by
  induction pkgs generalizing r with
  | nil =>
    simp only [requiredForPkgs] at h
    cases h
    exact hr
  | cons p rest ih =>
    obtain ⟨ver, req⟩ := p
    simp only [requiredForPkgs] at h
    split at h
    · cases h
    · cases h
    · rename_i r1 h1
      exact ih (requiredForPkg_inv _ hr h1) h

theorem requiredEntries_inv {dg : DepGraph} {m : Mapper} {reqs : List CSet} {s : Store} {n : Nat}
    {mode : Mode} {r : Required} (h : requiredEntries dg m reqs s n mode = .ok (some r)) :
    r = [] ∨ ∃ g, build s m n = .ok (.graph g) ∧ RInv (Prov g mode) r := by
  unfold requiredEntries at h
  simp only at h
  split at h
  · cases h
    exact Or.inl rfl
  · split at h
    · cases h
    · cases h
    · rename_i g hb
      exact Or.inr ⟨g, hb, requiredForPkgs_inv _ (RInv.nil _) h⟩

/-! ### from a search result to the records -/

theorem usable_of_ne {mode : Mode} (hmode : mode ≠ .regenerateExemptions) (c : Nat) (e : Edge) :
    usable mode c e = e.crit.testBit c := by
  simp [usable, hmode]

theorem search_ok_walk {g : Graph} {c v : Nat} {mode : Mode} {path : List Origin}
    (h : search g c v mode = .ok path) : ∃ l, Walk g.backward mode c (some v) path l none := by
  unfold search at h
  split at h
  · rename_i p hp
    cases h
    exact search_sound g.backward c (some v) none mode (searchFuel g) path
      (by simpa only [searchForPath, initQueue, if_true] using hp)
  · cases h
  · split at h
    · cases h
    · split at h <;> cases h

/-- outside the regenerate mode every origin on a backward walk is the origin of a stored edge
that carries the criterion -/
theorem walk_origin_edge {g : Graph} {mode : Mode} (hmode : mode ≠ .regenerateExemptions) {c : Nat}
    {a b : Option Nat} {p : List Origin} {l : Nat} (w : Walk g.backward mode c a p l b) :
    ∀ o ∈ p, ∃ t ∈ g.edges, t.origin = o ∧ t.crit.testBit c = true := by
  induction w with
  | nil => intro o ho; cases ho
  | snoc _ st ih =>
    intro o ho
    rcases List.mem_append.1 ho with ho | ho
    · exact ih o ho
    · rw [List.mem_singleton] at ho
      subst ho
      cases st with
      | edge he hu =>
        obtain ⟨t, ht, _, rfl⟩ := mem_backward he
        rw [usable_of_ne hmode] at hu
        exact ⟨t, ht, rfl, hu⟩
      | fresh hm => exact absurd hm hmode

/-- a provenance fact on a built graph, outside the regenerate mode, names a certifying record -/
theorem Prov.certEdge {s : Store} {m : Mapper} {name : Nat} {g : Graph}
    (hb : build s m name = .ok (.graph g)) {mode : Mode} (hmode : mode ≠ .regenerateExemptions)
    {e : ReqEntry} {c : Nat} (hp : Prov g mode e c) :
    ∃ o a b, e ∈ originEntries o ∧ CertEdge s m name c a o b := by
  obtain ⟨ver, path, o, hs, ho, he⟩ := hp
  obtain ⟨l, w⟩ := search_ok_walk hs
  obtain ⟨t, ht, rfl, hc⟩ := walk_origin_edge hmode w o ho
  exact ⟨t.origin, t.src, t.dst, he, build_sound s m name g hb t ht c hc⟩

theorem certEdge_exemption {s : Store} {m : Mapper} {name c : Nat} {a b : Option Nat} {idx : Nat}
    (h : CertEdge s m name c a (.exemption idx) b) :
    ∃ x cs, (x, idx) ∈ (getL name s.exemptions).zipIdx ∧ m.fromList x.criteria = .ok cs ∧
      cs.testBit c = true := by
  generalize ho : Origin.exemption idx = o at h
  cases h with
  | @full imp _ _ _ _ _ _ _ _ => cases imp <;> cases ho
  | @delta imp _ _ _ _ _ _ _ _ _ => cases imp <;> cases ho
  | wildcard => cases ho
  | trusted => cases ho
  | unpublished => cases ho
  | exemption hmem hcs hc => cases ho; exact ⟨_, _, hmem, hcs, hc⟩

theorem certEdge_no_fresh {s : Store} {m : Mapper} {name c : Nat} {a b : Option Nat} {v : Nat}
    (h : CertEdge s m name c a (.freshExemption v) b) : False := by
  generalize ho : Origin.freshExemption v = o at h
  cases h with
  | @full imp _ _ _ _ _ _ _ _ => cases imp <;> cases ho
  | @delta imp _ _ _ _ _ _ _ _ _ => cases imp <;> cases ho
  | wildcard => cases ho
  | trusted => cases ho
  | unpublished => cases ho
  | exemption => cases ho

theorem originEntries_exemption {o : Origin} {idx : Nat} (h : ReqEntry.exemption idx ∈ originEntries o) :
    o = .exemption idx := by
  cases o with
  | wildcard imp i p => cases imp <;> simp [originEntries] at h
  | exemption i => simp [originEntries] at h; rw [h]
  | _ => simp [originEntries] at h

theorem originEntries_fresh {o : Origin} {v : Nat} (h : ReqEntry.freshExemption v ∈ originEntries o) :
    o = .freshExemption v := by
  cases o with
  | wildcard imp i p => cases imp <;> simp [originEntries] at h
  | freshExemption i => simp [originEntries] at h; rw [h]
  | _ => simp [originEntries] at h

/-- `build` never produces an edge with a `FreshExemption` origin -/
theorem build_no_fresh_origin {s : Store} {m : Mapper} {name : Nat} {g : Graph}
    (h : build s m name = .ok (.graph g)) :
    ∀ t ∈ g.edges, ∀ v', t.origin ≠ .freshExemption v' := by
  obtain ⟨e1, e2, e4, h1, h2, h4, _, hg⟩ := build_graph_inv h
  intro t ht v' ho
  rw [hg, List.mem_append, List.mem_append, List.mem_append] at ht
  rcases ht with ((ht | ht) | ht) | ht
  · rw [auditEdges_mem h1] at ht
    obtain ⟨imp, idx, a, cs, _, _, hr⟩ := ht
    rcases hr with ⟨v, _, rfl⟩ | ⟨f, to, _, rfl⟩ <;> cases imp <;> cases ho
  · rw [publisherEdges_mem h2] at ht
    obtain ⟨p, pi, _, hr⟩ := ht
    rcases hr with ⟨imp, idx, w, cs, _, _, _, rfl⟩ | ⟨e, cs, _, _, _, rfl⟩ <;> cases ho
  · rw [unpubEdges_mem] at ht
    obtain ⟨u, i, _, rfl⟩ := ht
    cases ho
  · rw [exemptionEdges_mem h4] at ht
    obtain ⟨x, i, cs, _, _, rfl⟩ := ht
    cases ho

/-- outside the regenerate mode a chosen path only uses origins of stored edges -/
theorem search_origin_edge {g : Graph} {c v : Nat} {mode : Mode} {path : List Origin}
    (hmode : mode ≠ .regenerateExemptions) (h : search g c v mode = .ok path) :
    ∀ o ∈ path, ∃ t ∈ g.edges, t.origin = o ∧ t.crit.testBit c = true := by
  obtain ⟨l, w⟩ := search_ok_walk h
  exact walk_origin_edge hmode w

end Vet
