/- Records on chosen paths survive the update: a certifying edge of the old store whose entries
are required gives a certifying edge of the new store; and the new store only has (narrowed)
records of the old one. -/
import Vet.Lemmas.PreserveRequired
import Vet.Lemmas.PreserveBuild
namespace Vet

theorem pres_has_of_get? {r : Required} {e : ReqEntry} {su : CSet} (h : r.get? e = some su) : r.has e = true := by
  simp [Required.has, h]

section keep
variable {s : Store} {modeOf : Nat → UpdateMode} {lookup : Nat → Option (Option Required)}
  {name : Nat} {r : Required}

theorem keepLocal_of_has (hreq : reqOfLookup lookup name = some r) {i : Nat} {a : Audit}
    (h : r.has (.localAudit i) = true) : keepLocal modeOf lookup name i a = true := by
  unfold keepLocal
  unfold reqOfLookup at hreq
  rcases hl : lookup name with _ | _ | r'
  · rfl
  · rfl
  · rw [hl] at hreq
    simp only [Option.getD_some, Option.some.injEq] at hreq
    subst hreq
    simp only
    split
    · simp [h]
    · rfl

theorem keepAudit_of_has (hreq : reqOfLookup lookup name = some r) {ii i : Nat} {a : Audit}
    (hv : isViolation a = false) (h : r.has (.audit ii i) = true) :
    keepAudit s modeOf lookup ii name i a = true := by
  unfold keepAudit
  rw [hreq, hv]
  simp only [Bool.false_eq_true, if_false, h]
  split <;> rfl

theorem keepWild_of_has (hreq : reqOfLookup lookup name = some r) {ii i : Nat} {a : Wildcard}
    (h : r.has (.wildcard ii i) = true) : keepWild s modeOf lookup ii name i a = true := by
  unfold keepWild
  rw [hreq]
  simp only [h]
  split <;> rfl

theorem keepPub_of_has (hreq : reqOfLookup lookup name = some r) {i : Nat} {a : Publisher}
    (h : r.has (.publisher i) = true) : keepPub s modeOf lookup name i a = true := by
  unfold keepPub
  rw [hreq]
  simp only [h]
  split <;> rfl

theorem keepUnpub_of_has (hreq : reqOfLookup lookup name = some r) {i : Nat} {a : Unpub}
    (h : r.has (.unpublished i) = true) : keepUnpub modeOf lookup name i a = true := by
  unfold keepUnpub
  rw [hreq]
  simp only [h]
  split <;> rfl

end keep

theorem isViolation_full {a : Audit} {v : Nat} (h : a.kind = .full v) : isViolation a = false := by
  simp [isViolation, h]

theorem isViolation_delta {a : Audit} {f t : Nat} (h : a.kind = .delta f t) : isViolation a = false := by
  simp [isViolation, h]

section edge
variable {t : Table} {m : Mapper} (hm : Mapper.new t = .ok m)
  (s : Store) (modeOf : Nat → UpdateMode) (lookup : Nat → Option (Option Required))
  (ex : List (Nat × List Exemption)) (name : Nat)

/-- the exemptions of `name` after the update are the updated exemptions of `name` -/
def ExOK (m : Mapper) (s : Store) (modeOf : Nat → UpdateMode) (lookup : Nat → Option (Option Required))
    (ex : List (Nat × List Exemption)) (name : Nat) : Prop :=
  updateExemptions m (modeOf name).pruneExemptions (reqOfLookup lookup name) (getL name s.exemptions).zipIdx =
    .ok (getL name ex)

/-- the recorded exemption criteria of `name` are criteria the exemptions have -/
def AllExSound (m : Mapper) (s : Store) (lookup : Nat → Option (Option Required)) (name : Nat) : Prop :=
  ∀ x idx original, (x, idx) ∈ (getL name s.exemptions).zipIdx → m.fromList x.criteria = .ok original →
    ExSound (reqOfLookup lookup name) idx original

include hm in
theorem edge_kept {r : Required} (hreq : reqOfLookup lookup name = some r)
    (hex : ExOK m s modeOf lookup ex name) (hsound : AllExSound m s lookup name)
    {c : Nat} {a b : Option Nat} {o : Origin} (he : CertEdge s m name c a o b)
    (hent : ∀ e ∈ originEntries o, ∃ su, r.get? e = some su ∧ su.testBit c = true) :
    ∃ o', CertEdge (applyLocked s (updatesOf s modeOf lookup ex)) m name c a o' b := by
  have hhas : ∀ e ∈ originEntries o, r.has e = true := fun e he' => by
    obtain ⟨su, hsu, _⟩ := hent e he'
    exact pres_has_of_get? hsu
  cases he with
  | @full imp idx a v cs hmem hk hcs hbit =>
    cases imp with
    | none =>
      have hkeep := keepLocal_of_has (modeOf := modeOf) (a := a) hreq
        (hhas (.localAudit idx) (by simp [auditOrigin, originEntries]))
      obtain ⟨j', hj'⟩ := new_audits_kept_local s modeOf lookup ex name hmem hkeep
      exact ⟨_, CertEdge.full hj' hk hcs hbit⟩
    | some ii =>
      have hkeep := keepAudit_of_has (s := s) (modeOf := modeOf) (a := a) hreq (isViolation_full hk)
        (hhas (.audit ii idx) (by simp [auditOrigin, originEntries]))
      obtain ⟨j', hj'⟩ := new_audits_kept_import s modeOf lookup ex name hmem hkeep
      exact ⟨_, CertEdge.full hj' hk hcs hbit⟩
  | @delta imp idx a f to cs hmem hk hcs hbit =>
    cases imp with
    | none =>
      have hkeep := keepLocal_of_has (modeOf := modeOf) (a := a) hreq
        (hhas (.localAudit idx) (by simp [auditOrigin, originEntries]))
      obtain ⟨j', hj'⟩ := new_audits_kept_local s modeOf lookup ex name hmem hkeep
      exact ⟨_, CertEdge.delta hj' hk hcs hbit⟩
    | some ii =>
      have hkeep := keepAudit_of_has (s := s) (modeOf := modeOf) (a := a) hreq (isViolation_delta hk)
        (hhas (.audit ii idx) (by simp [auditOrigin, originEntries]))
      obtain ⟨j', hj'⟩ := new_audits_kept_import s modeOf lookup ex name hmem hkeep
      exact ⟨_, CertEdge.delta hj' hk hcs hbit⟩
  | @wildcard imp idx pi w p cs hw hp hga hcs hbit =>
    have hpk := keepPub_of_has (s := s) (modeOf := modeOf) (a := p) hreq
      (hhas (.publisher pi) (by cases imp <;> simp [originEntries]))
    obtain ⟨pj, hpj⟩ := new_publishers_kept s modeOf lookup ex name hp hpk
    cases imp with
    | none =>
      have hw' := new_wildcards_kept_local s modeOf lookup ex name hw
      exact ⟨_, CertEdge.wildcard (p := { p with fresh := false }) hw' hpj hga hcs hbit⟩
    | some ii =>
      have hkeep := keepWild_of_has (s := s) (modeOf := modeOf) (a := w) hreq
        (hhas (.wildcard ii idx) (by simp [originEntries]))
      obtain ⟨j', hj'⟩ := new_wildcards_kept_import s modeOf lookup ex name hw hkeep
      exact ⟨_, CertEdge.wildcard (w := { w with fresh := false }) (p := { p with fresh := false })
        hj' hpj hga hcs hbit⟩
  | @trusted pi tr p cs ht hp hga hcs hbit =>
    have hpk := keepPub_of_has (s := s) (modeOf := modeOf) (a := p) hreq
      (hhas (.publisher pi) (by simp [originEntries]))
    obtain ⟨pj, hpj⟩ := new_publishers_kept s modeOf lookup ex name hp hpk
    exact ⟨_, CertEdge.trusted (p := { p with fresh := false }) ht hpj hga hcs hbit⟩
  | @unpublished i u hmem hlt =>
    have hkeep := keepUnpub_of_has (modeOf := modeOf) (a := u) hreq
      (hhas (.unpublished i) (by simp [originEntries]))
    obtain ⟨j', hj'⟩ := new_unpublished_kept s modeOf lookup ex name hmem hkeep
    exact ⟨_, CertEdge.unpublished (u := { u with fresh := false }) hj' hlt⟩
  | @exemption i x cs hmem hcs hbit =>
    obtain ⟨su, hsu, hsubit⟩ := hent (.exemption i) (by simp [originEntries])
    obtain ⟨l', hl', hall⟩ := (updateExemptions_members hex).2 (x, i) hmem
    obtain ⟨l'', hl'', _, hkeep⟩ := updateExemption_spec hm
      (prune := (modeOf name).pruneExemptions) (req := reqOfLookup lookup name) hcs (hsound x i cs hmem hcs)
    rw [hl'] at hl''
    cases hl''
    obtain ⟨x', hx', hver, cs', hcs', hbit'⟩ := hkeep r su c hreq hsu hsubit
    have hx'mem : x' ∈ getL name (applyLocked s (updatesOf s modeOf lookup ex)).exemptions := hall x' hx'
    obtain ⟨j, hj⟩ := exists_zipIdx_of_mem hx'mem
    rw [← hver]
    exact ⟨_, CertEdge.exemption hj hcs' hbit'⟩

include hm in
/-- for crate `name` the new store has only (narrowed) records of the old one -/
theorem storeSub_applied (hold : ∃ g, build s m name = .ok (.graph g))
    (hex : ExOK m s modeOf lookup ex name) (hsound : AllExSound m s lookup name) :
    StoreSub (applyLocked s (updatesOf s modeOf lookup ex)) s m name := by
  refine ⟨?_, ?_, ?_, rfl, ?_⟩
  · rintro ⟨imp, j, a'⟩ h
    obtain ⟨j', a, ha, hk, hc, _⟩ := new_audits_sub s modeOf lookup ex name h
    exact ⟨(imp, j', a), ha, hk, hc⟩
  · rintro ⟨imp, j, a'⟩ h
    obtain ⟨j', a, ha, h1, h2, h3, h4⟩ := new_wildcards_sub s modeOf lookup ex name h
    exact ⟨(imp, j', a), ha, h1, h2, h3, h4⟩
  · intro p' hp'
    obtain ⟨p, i, hp, _, rfl⟩ := (new_publishers s modeOf lookup ex name).1 hp'
    exact ⟨p, mem_of_zipIdx hp, rfl, rfl⟩
  · intro x' hx'
    have hx'' : x' ∈ getL name ex := hx'
    obtain ⟨⟨x, i⟩, hxi, l', hl', hx'l⟩ := (updateExemptions_members hex).1 x' hx''
    obtain ⟨_, _, ⟨e4, h4⟩, _⟩ := build_graph_iff.1 hold
    obtain ⟨original, horig⟩ := exemptionEdges_ok_iff.1 ⟨e4, h4⟩ (x, i) hxi
    obtain ⟨l'', hl'', hnarrow, _⟩ := updateExemption_spec hm
      (prune := (modeOf name).pruneExemptions) (req := reqOfLookup lookup name) horig
      (hsound x i original hxi horig)
    rw [hl'] at hl''
    cases hl''
    obtain ⟨hver, cs', hcs', hsub⟩ := hnarrow x' hx'l
    exact ⟨x, mem_of_zipIdx hxi, hver, original, cs', horig, hcs', hsub⟩

end edge

end Vet
