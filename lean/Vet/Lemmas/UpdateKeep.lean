/- `keepIdx` (index filters) and small list/assoc facts used by the C11 theorems. -/
import Vet.Model.Apply
namespace Vet

theorem mem_keepIdx {α : Type} (l : List α) (f : Nat → α → Bool) (i : Nat) :
    i ∈ keepIdx l f ↔ ∃ a, l[i]? = some a ∧ f i a = true := by
  simp only [keepIdx, List.mem_map, List.mem_filter, List.mem_zipIdx_iff_getElem?]
  constructor
  · rintro ⟨⟨a, j⟩, ⟨h1, h2⟩, rfl⟩
    exact ⟨a, h1, h2⟩
  · rintro ⟨a, h1, h2⟩
    exact ⟨(a, i), ⟨h1, h2⟩, rfl⟩

theorem keepIdx_pairwise {α : Type} (l : List α) (f : Nat → α → Bool) :
    (keepIdx l f).Pairwise (· < ·) := by
  unfold keepIdx
  have h1 : ((l.zipIdx.filter (fun (a, i) => f i a)).map (·.2)).Sublist (l.zipIdx.map (·.2)) :=
    List.Sublist.map _ List.filter_sublist
  rw [List.zipIdx_map_snd] at h1
  exact List.Pairwise.sublist h1 (List.pairwise_lt_range' 1 (by decide))

theorem keepIdx_lt {α : Type} (l : List α) (f : Nat → α → Bool) (i : Nat) (h : i ∈ keepIdx l f) :
    i < l.length := by
  obtain ⟨a, ha, _⟩ := (mem_keepIdx l f i).1 h
  exact (List.getElem?_eq_some_iff.1 ha).1

theorem keepIdx_true {α : Type} (l : List α) (f : Nat → α → Bool)
    (hf : ∀ i a, l[i]? = some a → f i a = true) : keepIdx l f = List.range l.length := by
  unfold keepIdx
  rw [List.filter_eq_self.2, List.range_eq_range', List.zipIdx_map_snd]
  rintro ⟨a, i⟩ h
  exact hf i a (List.mem_zipIdx_iff_getElem?.1 h)

theorem assoc?_mem {β : Type} {k : Nat} {l : List (Nat × β)} {v : β} (h : assoc? k l = some v) :
    (k, v) ∈ l := by
  induction l with
  | nil => cases h
  | cons a rest ih =>
    obtain ⟨k', v'⟩ := a
    simp only [assoc?] at h
    split at h
    · rename_i hk
      cases h
      subst hk
      exact List.mem_cons_self
    · exact List.mem_cons_of_mem _ (ih h)

theorem assoc?_of_nodup {β : Type} {k : Nat} {l : List (Nat × β)} {v : β}
    (hnd : (l.map (·.1)).Nodup) (h : (k, v) ∈ l) : assoc? k l = some v := by
  induction l with
  | nil => cases h
  | cons a rest ih =>
    obtain ⟨k', v'⟩ := a
    simp only [List.map_cons, List.nodup_cons] at hnd
    simp only [assoc?]
    rcases List.mem_cons.1 h with h | h
    · cases h
      rw [if_pos rfl]
    · have hne : k' ≠ k := by
        intro e
        subst e
        exact hnd.1 (List.mem_map.2 ⟨(k', v), h, rfl⟩)
      rw [if_neg hne]
      exact ih hnd.2 h

theorem getL_of_nodup {β : Type} {k : Nat} {l : List (Nat × List β)} {v : List β}
    (hnd : (l.map (·.1)).Nodup) (h : (k, v) ∈ l) : getL k l = v := by
  simp only [getL, assoc?_of_nodup hnd h, Option.getD_some]

theorem getL_mem {β : Type} {k : Nat} {l : List (Nat × List β)} {x : β} (h : x ∈ getL k l) :
    ∃ v, (k, v) ∈ l ∧ x ∈ v := by
  unfold getL at h
  cases ha : assoc? k l with
  | none => rw [ha] at h; cases h
  | some v => rw [ha] at h; exact ⟨v, assoc?_mem ha, h⟩

end Vet
