/- Helper lemmas for `get_store_updates`. -/
import Vet.Props.Search
import Vet.Props.Build
import Vet.Props.C05
import Vet.Model.Apply
namespace Vet
end Vet
