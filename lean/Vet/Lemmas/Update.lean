/- Helper lemmas for `get_store_updates`. -/
import Vet.Props.Search
import Vet.Props.Build
import Vet.Props.C05
import Vet.Model.Apply
import Vet.Lemmas.UpdateKeep
import Vet.Lemmas.UpdateInv
import Vet.Lemmas.UpdateReq
import Vet.Lemmas.UpdateEx
namespace Vet

/-- a table rewritten entry by entry with `(n, l) ↦ (n, keepIdx l (F n))` -/
theorem keepTable_spec {α : Type} (t : List (Nat × List α)) (F : Nat → Nat → α → Bool) :
    (t.map (fun (n, l) => (n, keepIdx l (F n)))).map (·.1) = t.map (·.1) ∧
    ∀ n kept, (n, kept) ∈ t.map (fun (n, l) => (n, keepIdx l (F n))) →
      ∃ l, (n, l) ∈ t ∧ kept = keepIdx l (F n) := by
  constructor
  · rw [List.map_map]
    apply List.map_congr_left
    rintro ⟨n, l⟩ _
    rfl
  · intro n kept h
    obtain ⟨⟨n', l⟩, hmem, he⟩ := List.mem_map.1 h
    cases he
    exact ⟨l, hmem, rfl⟩

theorem getD_prop {α : Type} (P : α → Prop) (l : List α) (j : Nat) (d : α)
    (hl : ∀ a ∈ l, P a) (hd : P d) : P (l.getD j d) := by
  rw [List.getD_eq_getElem?_getD]
  cases h : l[j]? with
  | none => exact hd
  | some a => exact hl a (List.mem_of_getElem? h)

theorem getL_prop {β : Type} (P : β → Prop) (k : Nat) (t : List (Nat × List β))
    (h : ∀ l, (k, l) ∈ t → ∀ a ∈ l, P a) : ∀ a ∈ getL k t, P a := by
  intro a ha
  obtain ⟨v, hv, hav⟩ := getL_mem ha
  exact h v hv a hav

theorem shouldPruneImports_false (s : Store) (req : Option Required) (mode : UpdateMode) (n : Nat)
    (hp : mode.pruneImports = false)
    (h1 : ∀ l, (n, l) ∈ s.publishers → ∀ p ∈ l, p.fresh = false)
    (h2 : ∀ f ∈ s.imports, (∀ l, (n, l) ∈ f.audits → ∀ a ∈ l, a.fresh = false) ∧
                            (∀ l, (n, l) ∈ f.wildcards → ∀ a ∈ l, a.fresh = false)) :
    shouldPruneImports s req mode n = false := by
  unfold shouldPruneImports
  rw [hp]
  simp only [Bool.false_eq_true, if_false]
  cases req with
  | none => rfl
  | some r =>
    simp only
    rw [List.any_eq_false]
    rintro ⟨e, b⟩ _
    have himp : ∀ i, (∀ l, (n, l) ∈ (s.imports.getD i ⟨[], []⟩).audits → ∀ a ∈ l, a.fresh = false) ∧
        (∀ l, (n, l) ∈ (s.imports.getD i ⟨[], []⟩).wildcards → ∀ a ∈ l, a.fresh = false) := by
      intro i
      apply getD_prop (fun f : AFile => (∀ l, (n, l) ∈ f.audits → ∀ a ∈ l, a.fresh = false) ∧
        (∀ l, (n, l) ∈ f.wildcards → ∀ a ∈ l, a.fresh = false)) s.imports i _ h2
      exact ⟨fun l hl => (nomatch hl), fun l hl => (nomatch hl)⟩
    cases e with
    | audit i j =>
      simp only [Bool.not_eq_true]
      exact getD_prop (fun a : Audit => a.fresh = false) _ j _ (getL_prop _ n _ (himp i).1) rfl
    | wildcard i j =>
      simp only [Bool.not_eq_true]
      exact getD_prop (fun a : Wildcard => a.fresh = false) _ j _ (getL_prop _ n _ (himp i).2) rfl
    | publisher p =>
      simp only [Bool.not_eq_true]
      exact getD_prop (fun a : Publisher => a.fresh = false) _ p _ (getL_prop _ n _ h1) rfl
    | _ => simp

theorem mem_unique_of_nodup {β : Type} {k : Nat} {l : List (Nat × β)} {v v' : β}
    (hnd : (l.map (·.1)).Nodup) (h : (k, v) ∈ l) (h' : (k, v') ∈ l) : v = v' := by
  have e := (assoc?_of_nodup hnd h).symm.trans (assoc?_of_nodup hnd h')
  cases e
  rfl

end Vet
