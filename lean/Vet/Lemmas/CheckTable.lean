/- Soundness and completeness of `checkTable` (the depth-first search of `check_criteria_table`)
with respect to `Mapper.new`. -/
import Vet.Lemmas.MapperSpec
namespace Vet

/-! ### successors -/

theorem mem_succs (t : Table) (i j : Nat) :
    j ∈ t.succs i ↔ 2 ≤ i ∧ ∃ c, t[i - 2]? = some c ∧ j ∈ c.implies := by
  unfold Table.succs
  by_cases h : 2 ≤ i
  · simp only [h, if_true, true_and]
    cases t[i - 2]? with
    | none => simp
    | some c => simp
  · simp [h]

theorem direct_iff_succs (t : Table) (i j : Nat) :
    t.direct i j ↔ (i = 1 ∧ j = 0) ∨ j ∈ t.succs i := by
  unfold Table.direct
  rw [mem_succs]

theorem succs_lt {t : Table} {i j : Nat} (h : j ∈ t.succs i) : 2 ≤ i ∧ i < t.n := by
  obtain ⟨h2, c, hc, _⟩ := (mem_succs t i j).1 h
  have := (List.getElem?_eq_some_iff.1 hc).1
  unfold Table.n
  omega

/-- reachability along `succs` (custom criteria only) -/
inductive SReach (t : Table) : Nat → Nat → Prop
  | refl (i : Nat) : SReach t i i
  | step {i k j : Nat} : k ∈ t.succs i → SReach t k j → SReach t i j

theorem SReach.snoc {t : Table} {i j k : Nat} (h : SReach t i j) (hk : k ∈ t.succs j) :
    SReach t i k := by
  induction h with
  | refl _ => exact .step hk (.refl _)
  | step hs _ ih => exact .step hs (ih hk)

theorem SReach.implies {t : Table} {i j : Nat} (h : SReach t i j) : t.Implies i j := by
  induction h with
  | refl _ => exact .refl _
  | step hs _ ih => exact .step ((direct_iff_succs ..).2 (.inr hs)) ih

theorem implies_zero {t : Table} {j : Nat} (h : t.Implies 0 j) : j = 0 := by
  cases h with
  | refl _ => rfl
  | step hd _ => rcases hd with ⟨h, _⟩ | ⟨h, _⟩ <;> omega

theorem SReach_of_implies {t : Table} {i j : Nat} (h : t.Implies i j) (hj : 2 ≤ j) : SReach t i j := by
  induction h with
  | refl _ => exact .refl _
  | step hd hr ih =>
    rcases (direct_iff_succs ..).1 hd with ⟨_, rfl⟩ | hs
    · have := implies_zero hr
      omega
    · exact .step hs (ih hj)

/-! ### the invariant of the `done` list -/

/-- every successor of a finished name was finished earlier (`done` is most recent first) -/
def Topo (t : Table) : List Nat → Prop
  | [] => True
  | x :: post => (∀ y ∈ t.succs x, y ∈ post) ∧ Topo t post

theorem Topo.closed {t : Table} {l : List Nat} (h : Topo t l) {x y : Nat} (hx : x ∈ l)
    (hy : y ∈ t.succs x) : y ∈ l := by
  induction l with
  | nil => cases hx
  | cons a post ih =>
    rcases List.mem_cons.1 hx with rfl | hx
    · exact List.mem_cons_of_mem _ (h.1 y hy)
    · exact List.mem_cons_of_mem _ (ih h.2 hx)

theorem Topo.closed_reach {t : Table} {l : List Nat} (h : Topo t l) {x y : Nat} (hx : x ∈ l)
    (hr : SReach t x y) : y ∈ l := by
  induction hr with
  | refl _ => exact hx
  | step hs _ ih => exact ih (h.closed hx hs)

theorem Topo.acyclic {t : Table} {l : List Nat} (h : Topo t l) {x k : Nat} (hx : x ∈ l)
    (hk : k ∈ t.succs x) : ¬ SReach t k x := by
  induction l with
  | nil => cases hx
  | cons a post ih =>
    intro hr
    by_cases hp : x ∈ post
    · exact ih h.2 hp hr
    · rcases List.mem_cons.1 hx with rfl | hx
      · exact hp (h.2.closed_reach (h.1 k hk) hr)
      · exact hp hx

/-! ### post-conditions of the search -/

structure VPost (t : Table) (name : Nat) (done done' : List Nat) : Prop where
  topo : Topo t done'
  sub : ∀ x ∈ done, x ∈ done'
  mem : name ∈ done'

theorem children_post {t : Table} {rec : Nat → List Nat → Option (List Nat)}
    (hrec : ∀ c done done', Topo t done → rec c done = some done' → VPost t c done done') :
    ∀ (cs : List Nat) (done done' : List Nat), Topo t done → dfsChildren rec cs done = some done' →
      Topo t done' ∧ (∀ x ∈ done, x ∈ done') ∧ ∀ c ∈ cs, c ∈ done' := by
  intro cs
  induction cs with
  | nil =>
    intro done done' ht h
    simp only [dfsChildren, Option.some.injEq] at h
    subst h
    exact ⟨ht, fun _ hx => hx, fun _ hc => by cases hc⟩
  | cons c cs ih =>
    intro done done' ht h
    simp only [dfsChildren] at h
    cases h1 : rec c done with
    | none => simp [h1] at h
    | some d1 =>
      simp only [h1] at h
      have p1 := hrec c done d1 ht h1
      obtain ⟨ht', hsub, hall⟩ := ih d1 done' p1.topo h
      refine ⟨ht', fun x hx => hsub x (p1.sub x hx), ?_⟩
      intro c' hc'
      rcases List.mem_cons.1 hc' with rfl | hc'
      · exact hsub _ p1.mem
      · exact hall c' hc'

theorem visit_post {t : Table} : ∀ (fuel : Nat) (path : List Nat) (name : Nat) (done done' : List Nat),
    Topo t done → dfsVisit t fuel path name done = some done' → VPost t name done done' := by
  intro fuel
  induction fuel with
  | zero => intro path name done done' _ h; simp [dfsVisit] at h
  | succ fuel ih =>
    intro path name done done' ht h
    simp only [dfsVisit] at h
    split at h
    · next hd =>
      simp only [Option.some.injEq] at h
      subst h
      exact ⟨ht, fun _ hx => hx, by simpa using hd⟩
    · split at h
      · cases h
      · cases hc : dfsChildren (dfsVisit t fuel (name :: path)) (t.succs name) done with
        | none => simp [hc] at h
        | some d1 =>
          simp only [hc, Option.some.injEq] at h
          subst h
          obtain ⟨ht', hsub, hall⟩ := children_post (fun c d d' => ih (name :: path) c d d') _ _ _ ht hc
          exact ⟨⟨hall, ht'⟩, fun x hx => List.mem_cons_of_mem _ (hsub x hx), List.mem_cons_self ..⟩

theorem dfsAll_eq (t : Table) (names done : List Nat) :
    dfsAll t names done = dfsChildren (dfsVisit t (t.n + 1) []) names done := by
  induction names generalizing done with
  | nil => rfl
  | cons a rest ih =>
    simp only [dfsAll, dfsChildren]
    cases dfsVisit t (t.n + 1) [] a done with
    | none => rfl
    | some d => exact ih d

/-! ### soundness -/

theorem checkTable_true {t : Table} (h : checkTable t = true) :
    (∀ c ∈ t, c.clash = 0) ∧ t.n ≤ 64 ∧
      ∃ done, dfsAll t ((List.range t.length).map (· + 2)) [] = some done := by
  unfold checkTable at h
  simp only [Bool.and_eq_true, Bool.not_eq_true', decide_eq_true_eq, Option.isSome_iff_exists] at h
  obtain ⟨⟨h1, h2⟩, h3⟩ := h
  refine ⟨?_, h2, h3⟩
  intro c hc
  have := List.any_eq_false.1 h1 c hc
  simpa using this

theorem no_cycle_of_dfsAll {t : Table} (hwf : t.WF) {done : List Nat}
    (h : dfsAll t ((List.range t.length).map (· + 2)) [] = some done) (i : Nat) (hi : i < t.n) :
    ¬ Plus t.n (directOf t) i i := by
  intro hp
  obtain ⟨k, hd, hr⟩ := (Plus_iff hwf i i).1 hp
  rw [dfsAll_eq] at h
  obtain ⟨ht, _, hall⟩ := children_post (t := t) (fun c d d' => visit_post (t.n + 1) [] c d d') _ [] done (by simp [Topo]) h
  rcases (direct_iff_succs ..).1 hd with ⟨rfl, rfl⟩ | hs
  · have := implies_zero hr
    omega
  · have h2 := (succs_lt hs).1
    have hmem : i ∈ done := by
      apply hall
      simp only [List.mem_map, List.mem_range]
      refine ⟨i - 2, ?_, by omega⟩
      unfold Table.n at hi
      omega
    exact ht.acyclic hmem hs (SReach_of_implies hr h2)

theorem checkTable_sound {t : Table} (hwf : t.WF) (h : checkTable t = true) : ∃ m, Mapper.new t = .ok m := by
  obtain ⟨h1, h2, done, hd⟩ := checkTable_true h
  exact new_of h1 h2 hwf (no_cycle_of_dfsAll hwf hd)

/-! ### completeness -/

/-- `path` (most recent first) is a chain of `succs` steps that ends in `name` -/
def Chain (t : Table) : List Nat → Nat → Prop
  | [], _ => True
  | p :: rest, name => name ∈ t.succs p ∧ Chain t rest p

theorem Chain.reach {t : Table} {path : List Nat} {name : Nat} (h : Chain t path name) {p : Nat}
    (hp : p ∈ path) : ∃ k ∈ t.succs p, SReach t k name := by
  induction path generalizing name with
  | nil => cases hp
  | cons q rest ih =>
    rcases List.mem_cons.1 hp with rfl | hp
    · exact ⟨name, h.1, .refl _⟩
    · obtain ⟨k, hk, hr⟩ := ih h.2 hp
      exact ⟨k, hk, hr.snoc h.1⟩

theorem Chain.lt {t : Table} {path : List Nat} {name : Nat} (h : Chain t path name) {p : Nat}
    (hp : p ∈ path) : p < t.n := by
  obtain ⟨k, hk, _⟩ := h.reach hp
  exact (succs_lt hk).2

theorem nodup_length_le : ∀ (n : Nat) (l : List Nat), l.Nodup → (∀ x ∈ l, x < n) → l.length ≤ n := by
  intro n
  induction n with
  | zero =>
    intro l _ h
    cases l with
    | nil => simp
    | cons a _ => exact absurd (h a (List.mem_cons_self ..)) (Nat.not_lt_zero _)
  | succ n ih =>
    intro l hnd h
    by_cases hn : n ∈ l
    · have h1 := ih (l.erase n) (hnd.erase n) (by
        intro x hx
        have hx' := (hnd.mem_erase_iff).1 hx
        have := h x hx'.2
        have := hx'.1
        omega)
      have h2 := List.length_erase_of_mem hn
      omega
    · have h1 := ih l hnd (by
        intro x hx
        have := h x hx
        have : x ≠ n := fun e => hn (e ▸ hx)
        omega)
      omega

theorem children_some {rec : Nat → List Nat → Option (List Nat)} :
    ∀ (cs : List Nat) (done : List Nat), (∀ c ∈ cs, ∀ d, (rec c d).isSome = true) →
      (dfsChildren rec cs done).isSome = true := by
  intro cs
  induction cs with
  | nil => intro done _; rfl
  | cons c cs ih =>
    intro done h
    simp only [dfsChildren]
    have h1 := h c (List.mem_cons_self ..) done
    cases hr : rec c done with
    | none => simp [hr] at h1
    | some d => exact ih d (fun c' hc' => h c' (List.mem_cons_of_mem _ hc'))

theorem visit_some {t : Table} (hac : ∀ i k, k ∈ t.succs i → ¬ SReach t k i) :
    ∀ (fuel : Nat) (path : List Nat) (name : Nat) (done : List Nat), Chain t path name → path.Nodup →
      t.n + 1 ≤ fuel + path.length → (dfsVisit t fuel path name done).isSome = true := by
  intro fuel
  induction fuel with
  | zero =>
    intro path name done hch hnd hlen
    have := nodup_length_le t.n path hnd (fun x hx => hch.lt hx)
    omega
  | succ fuel ih =>
    intro path name done hch hnd hlen
    simp only [dfsVisit]
    split
    · rfl
    · split
      · next hp =>
        have hp' : name ∈ path := by simpa using hp
        obtain ⟨k, hk, hr⟩ := hch.reach hp'
        exact absurd hr (hac name k hk)
      · next hp =>
        have hp' : name ∉ path := by simpa using hp
        have hc := children_some (rec := dfsVisit t fuel (name :: path)) (t.succs name) done (by
          intro c hc d
          apply ih (name :: path) c d ⟨hc, hch⟩ (List.nodup_cons.2 ⟨hp', hnd⟩)
          simp only [List.length_cons]
          omega)
        cases hd : dfsChildren (dfsVisit t fuel (name :: path)) (t.succs name) done with
        | none => simp [hd] at hc
        | some d => rfl

theorem checkTable_complete {t : Table} {m : Mapper} (h : Mapper.new t = .ok m) : checkTable t = true := by
  obtain ⟨h1, h2, hwf, _, _⟩ := new_ok h
  have hac : ∀ i k, k ∈ t.succs i → ¬ SReach t k i := by
    intro i k hk hr
    exact (new_implied h (succs_lt hk).2).1
      ((Plus_iff hwf i i).2 ⟨k, (direct_iff_succs ..).2 (.inr hk), hr.implies⟩)
  unfold checkTable
  simp only [Bool.and_eq_true, Bool.not_eq_true', decide_eq_true_eq]
  refine ⟨⟨?_, h2⟩, ?_⟩
  · apply List.any_eq_false.2
    intro c hc
    simp [h1 c hc]
  · rw [dfsAll_eq]
    apply children_some
    intro c _ d
    exact visit_some hac (t.n + 1) [] c d trivial List.nodup_nil (by simp)

end Vet
