/- Edges of a built graph, with their freshness: which records make an edge, and what a low caveat
level says about the records behind an edge. -/
import Vet.Lemmas.TwiceStore
namespace Vet

/-- the edges of a built graph, by record -/
theorem mem_build_edges {s : Store} {m : Mapper} {name : Nat} {g : Graph}
    (hb : build s m name = .ok (.graph g)) (t : Triple) :
    t ∈ g.edges ↔
      (∃ imp idx a cs, (imp, idx, a) ∈ allAudits s name ∧ m.fromList a.criteria = .ok cs ∧
        ((∃ v, a.kind = .full v ∧
            t = ⟨none, some v, cs, auditOrigin imp idx a, freshness a.fresh false⟩) ∨
         (∃ f to, a.kind = .delta f to ∧
            t = ⟨some f, some to, cs, auditOrigin imp idx a, freshness a.fresh false⟩))) ∨
      (∃ p pi, (p, pi) ∈ (getL name s.publishers).zipIdx ∧
        ((∃ imp idx w cs, (imp, idx, w) ∈ allWildcards s name ∧
            grantApplies w.user w.start w.stop p = true ∧ m.fromList w.criteria = .ok cs ∧
            t = ⟨none, some p.version, cs, .wildcard imp idx pi, freshness w.fresh p.fresh⟩) ∨
         (∃ e cs, e ∈ getL name s.trusted ∧ grantApplies e.user e.start e.stop p = true ∧
            m.fromList e.criteria = .ok cs ∧
            t = ⟨none, some p.version, cs, .trusted pi, freshness p.fresh false⟩))) ∨
      (∃ u i, (u, i) ∈ (getL name s.unpublished).zipIdx ∧
        t = ⟨some u.auditedAs, some u.version, m.all, .unpublished i, freshness u.fresh false⟩) ∨
      (∃ x i cs, (x, i) ∈ (getL name s.exemptions).zipIdx ∧ m.fromList x.criteria = .ok cs ∧
        t = ⟨none, some x.version, cs, .exemption i, 0⟩) := by
  obtain ⟨e1, e2, e4, h1, h2, h4, _, hg⟩ := build_graph_inv hb
  rw [hg, List.mem_append, List.mem_append, List.mem_append, auditEdges_mem h1, publisherEdges_mem h2,
    unpubEdges_mem, exemptionEdges_mem h4]
  simp only [or_assoc]

/-! ### freshness of the record behind a required entry -/

/-- the freshness flag `should_prune_imports` (and the unpublished keep rule) reads for an entry -/
def entryFresh (s : Store) (name : Nat) : ReqEntry → Bool
  | .audit i j => ((getL name ((s.imports.getD i ⟨[], []⟩).audits)).getD j ⟨.full 0, [], true, false⟩).fresh
  | .wildcard i j => ((getL name ((s.imports.getD i ⟨[], []⟩).wildcards)).getD j ⟨0, 0, 0, [], false⟩).fresh
  | .publisher p => ((getL name s.publishers).getD p ⟨0, 0, 0, false⟩).fresh
  | .unpublished i => ((getL name s.unpublished).getD i ⟨0, 0, false⟩).fresh
  | _ => false

theorem getD_of_zipIdx {α : Type} {l : List α} {a : α} {i : Nat} (d : α) (h : (a, i) ∈ l.zipIdx) :
    l.getD i d = a := by
  rw [List.getD_eq_getElem?_getD, List.mk_mem_zipIdx_iff_getElem?.1 h]
  rfl

theorem entryFresh_audit {s : Store} {name ii j : Nat} {a : Audit} (h : (some ii, j, a) ∈ allAudits s name) :
    entryFresh s name (.audit ii j) = a.fresh := by
  obtain ⟨f, hf, ha⟩ := mem_allAudits_some.1 h
  simp only [entryFresh]
  rw [getD_of_zipIdx _ hf, getD_of_zipIdx _ ha]

theorem entryFresh_wildcard {s : Store} {name ii j : Nat} {a : Wildcard}
    (h : (some ii, j, a) ∈ allWildcards s name) : entryFresh s name (.wildcard ii j) = a.fresh := by
  obtain ⟨f, hf, ha⟩ := mem_allWildcards_some.1 h
  simp only [entryFresh]
  rw [getD_of_zipIdx _ hf, getD_of_zipIdx _ ha]

theorem entryFresh_publisher {s : Store} {name pi : Nat} {p : Publisher}
    (h : (p, pi) ∈ (getL name s.publishers).zipIdx) : entryFresh s name (.publisher pi) = p.fresh := by
  simp only [entryFresh]
  rw [getD_of_zipIdx _ h]

theorem entryFresh_unpublished {s : Store} {name i : Nat} {u : Unpub}
    (h : (u, i) ∈ (getL name s.unpublished).zipIdx) : entryFresh s name (.unpublished i) = u.fresh := by
  simp only [entryFresh]
  rw [getD_of_zipIdx _ h]

theorem shouldPrune_false_of_stale {s : Store} {r : Required} {mode : UpdateMode} {name : Nat}
    (hp : mode.pruneImports = false) (h : ∀ e b, (e, b) ∈ r → entryFresh s name e = false) :
    shouldPruneImports s (some r) mode name = false := by
  unfold shouldPruneImports
  rw [hp]
  simp only [Bool.false_eq_true, if_false]
  rw [List.any_eq_false]
  rintro ⟨e, b⟩ hmem
  have := h e b hmem
  cases e <;> simp_all [entryFresh]

theorem freshness_eq_zero {a b : Bool} (h : freshness a b = 0) : a = false ∧ b = false := by
  unfold freshness at h
  cases a <;> cases b <;> simp_all

theorem stale_of_level_audit {s : Store} {name : Nat} {imp : Option Nat} {idx : Nat} {a : Audit}
    (hmem : (imp, idx, a) ∈ allAudits s name) {x : Option Nat} {cs : CSet}
    (hl : edgeCaveat .preferExemptions ⟨x, cs, auditOrigin imp idx a, freshness a.fresh false⟩ ≤ 3) :
    ∀ e ∈ originEntries (auditOrigin imp idx a), entryFresh s name e = false := by
  intro e he
  cases imp with
  | none =>
    simp only [auditOrigin, originEntries, List.mem_singleton] at he
    subst he
    rfl
  | some ii =>
    simp only [auditOrigin, originEntries, List.mem_singleton] at he
    subst he
    rw [entryFresh_audit hmem]
    have hf : freshness a.fresh false = 0 := by
      simp only [edgeCaveat, auditOrigin] at hl
      split at hl
      · assumption
      · split at hl <;> omega
    exact (freshness_eq_zero hf).1

/-- an edge of level at most 3 (in check mode) stands for records none of which is fresh -/
theorem stale_of_level {s : Store} {m : Mapper} {name : Nat} {g : Graph}
    (hb : build s m name = .ok (.graph g)) {t : Triple} (ht : t ∈ g.edges) (x : Option Nat)
    (hl : edgeCaveat .preferExemptions ⟨x, t.crit, t.origin, t.fresh⟩ ≤ 3) :
    ∀ e ∈ originEntries t.origin, entryFresh s name e = false := by
  rcases (mem_build_edges hb t).1 ht with
    ⟨imp, idx, a, cs, hmem, _, hr⟩ | ⟨p, pi, hp, hr⟩ | ⟨u, i, hu, rfl⟩ | ⟨x', i, cs, _, _, rfl⟩
  · have hl' : edgeCaveat .preferExemptions ⟨x, cs, auditOrigin imp idx a, freshness a.fresh false⟩ ≤ 3 := by
      rcases hr with ⟨v, _, rfl⟩ | ⟨f, to, _, rfl⟩ <;> exact hl
    have ho : t.origin = auditOrigin imp idx a := by
      rcases hr with ⟨v, _, rfl⟩ | ⟨f, to, _, rfl⟩ <;> rfl
    rw [ho]
    exact stale_of_level_audit hmem hl'
  · rcases hr with ⟨imp, idx, w, cs, hw, _, _, rfl⟩ | ⟨e', cs, _, _, _, rfl⟩
    · have hf : freshness w.fresh p.fresh = 0 := by
        simp only [edgeCaveat] at hl
        split at hl
        · assumption
        · split at hl <;> omega
      obtain ⟨hwf, hpf⟩ := freshness_eq_zero hf
      intro e he
      cases imp with
      | none =>
        simp only [originEntries, List.mem_singleton] at he
        subst he
        rw [entryFresh_publisher hp]
        exact hpf
      | some ii =>
        simp only [originEntries, List.mem_cons, List.not_mem_nil, or_false] at he
        rcases he with rfl | rfl
        · rw [entryFresh_wildcard hw]
          exact hwf
        · rw [entryFresh_publisher hp]
          exact hpf
    · have hf : freshness p.fresh false = 0 := by
        simp only [edgeCaveat] at hl
        split at hl
        · assumption
        · split at hl <;> omega
      intro e he
      simp only [originEntries, List.mem_singleton] at he
      subst he
      rw [entryFresh_publisher hp]
      exact (freshness_eq_zero hf).1
  · have hf : freshness u.fresh false = 0 := by
      simp only [edgeCaveat, if_true] at hl
      split at hl
      · assumption
      · omega
    intro e he
    simp only [originEntries, List.mem_singleton] at he
    subst he
    rw [entryFresh_unpublished hu]
    exact (freshness_eq_zero hf).1
  · intro e he
    simp only [originEntries, List.mem_singleton] at he
    subst he
    rfl

/-! ### the steps of a walk are bounded by its level -/

theorem walk_steps_le {adj : Option Nat → List Edge} {mode : Mode} (hm : mode ≠ .regenerateExemptions)
    {c : Nat} {a b : Option Nat} {p : List Origin} {l : Nat} (w : Walk adj mode c a p l b) :
    ∀ o ∈ p, ∃ a' e, e ∈ adj a' ∧ e.origin = o ∧ usable mode c e = true ∧ edgeCaveat mode e ≤ l := by
  induction w with
  | nil => intro o ho; cases ho
  | snoc _ st ih =>
    intro o ho
    rcases List.mem_append.1 ho with ho | ho
    · obtain ⟨a', e, h1, h2, h3, h4⟩ := ih o ho
      exact ⟨a', e, h1, h2, h3, by omega⟩
    · rw [List.mem_singleton] at ho
      subst ho
      cases st with
      | edge he hu => exact ⟨_, _, he, rfl, hu, by omega⟩
      | fresh h => exact absurd h hm

end Vet
