/- Helper lemmas for `AuditGraph::build`. -/
import Vet.Spec.Cert
namespace Vet

/-! ### `CSet.all` -/

theorem all_testBit (n c : Nat) : (CSet.all n).testBit c = decide (c < n) := by
  unfold CSet.all
  rw [Nat.shiftLeft_eq, Nat.one_mul, Nat.testBit_two_pow_sub_one]

/-! ### Membership characterisations of the four edge loops -/

theorem auditEdges_mem {m : Mapper} {l : List (Option Nat × Nat × Audit)} {ts : List Triple}
    (h : auditEdges m l = .ok ts) (t : Triple) :
    t ∈ ts ↔ ∃ imp idx a c, (imp, idx, a) ∈ l ∧ m.fromList a.criteria = .ok c ∧
      ((∃ v, a.kind = .full v ∧
          t = ⟨none, some v, c, auditOrigin imp idx a, freshness a.fresh false⟩) ∨
       (∃ f to, a.kind = .delta f to ∧
          t = ⟨some f, some to, c, auditOrigin imp idx a, freshness a.fresh false⟩)) := by
  induction l generalizing ts with
  | nil =>
    simp only [auditEdges, Except.ok.injEq] at h
    subst h
    simp
  | cons x rest ih =>
    obtain ⟨imp, idx, a⟩ := x
    simp only [auditEdges] at h
    split at h
    · rename_i mt hk
      rw [ih h]
      constructor
      · rintro ⟨imp', idx', a', c, hmem, hc, hr⟩
        exact ⟨imp', idx', a', c, List.mem_cons_of_mem _ hmem, hc, hr⟩
      · rintro ⟨imp', idx', a', c, hmem, hc, hr⟩
        rcases List.mem_cons.1 hmem with heq | hmem
        · cases heq
          rw [hk] at hr
          simp at hr
        · exact ⟨imp', idx', a', c, hmem, hc, hr⟩
    · rename_i v hk
      split at h
      · cases h
      · rename_i c0 hc0
        split at h
        · cases h
        · rename_i ts' hts'
          cases h
          rw [List.mem_cons, ih hts']
          constructor
          · rintro (rfl | ⟨imp', idx', a', c, hmem, hc, hr⟩)
            · exact ⟨imp, idx, a, c0, List.mem_cons_self, hc0, Or.inl ⟨v, hk, rfl⟩⟩
            · exact ⟨imp', idx', a', c, List.mem_cons_of_mem _ hmem, hc, hr⟩
          · rintro ⟨imp', idx', a', c, hmem, hc, hr⟩
            rcases List.mem_cons.1 hmem with heq | hmem
            · cases heq
              rw [hc0] at hc
              cases hc
              rw [hk] at hr
              rcases hr with ⟨v', hv', rfl⟩ | ⟨f, to, hft, _⟩
              · cases hv'
                exact Or.inl rfl
              · cases hft
            · exact Or.inr ⟨imp', idx', a', c, hmem, hc, hr⟩
    · rename_i f to hk
      split at h
      · cases h
      · rename_i c0 hc0
        split at h
        · cases h
        · rename_i ts' hts'
          cases h
          rw [List.mem_cons, ih hts']
          constructor
          · rintro (rfl | ⟨imp', idx', a', c, hmem, hc, hr⟩)
            · exact ⟨imp, idx, a, c0, List.mem_cons_self, hc0, Or.inr ⟨f, to, hk, rfl⟩⟩
            · exact ⟨imp', idx', a', c, List.mem_cons_of_mem _ hmem, hc, hr⟩
          · rintro ⟨imp', idx', a', c, hmem, hc, hr⟩
            rcases List.mem_cons.1 hmem with heq | hmem
            · cases heq
              rw [hc0] at hc
              cases hc
              rw [hk] at hr
              rcases hr with ⟨v', hv', _⟩ | ⟨f', to', hft, rfl⟩
              · cases hv'
              · cases hft
                exact Or.inl rfl
            · exact Or.inr ⟨imp', idx', a', c, hmem, hc, hr⟩

theorem wildcardEdges_mem {m : Mapper} {pi : Nat} {p : Publisher}
    {l : List (Option Nat × Nat × Wildcard)} {ts : List Triple}
    (h : wildcardEdges m pi p l = .ok ts) (t : Triple) :
    t ∈ ts ↔ ∃ imp idx w c, (imp, idx, w) ∈ l ∧ grantApplies w.user w.start w.stop p = true ∧
      m.fromList w.criteria = .ok c ∧
      t = ⟨none, some p.version, c, .wildcard imp idx pi, freshness w.fresh p.fresh⟩ := by
  induction l generalizing ts with
  | nil =>
    simp only [wildcardEdges, Except.ok.injEq] at h
    subst h
    simp
  | cons x rest ih =>
    obtain ⟨imp, idx, w⟩ := x
    simp only [wildcardEdges] at h
    split at h
    · rename_i hg
      split at h
      · cases h
      · rename_i c0 hc0
        split at h
        · cases h
        · rename_i ts' hts'
          cases h
          rw [List.mem_cons, ih hts']
          constructor
          · rintro (rfl | ⟨imp', idx', w', c, hmem, hg', hc, hr⟩)
            · exact ⟨imp, idx, w, c0, List.mem_cons_self, hg, hc0, rfl⟩
            · exact ⟨imp', idx', w', c, List.mem_cons_of_mem _ hmem, hg', hc, hr⟩
          · rintro ⟨imp', idx', w', c, hmem, hg', hc, hr⟩
            rcases List.mem_cons.1 hmem with heq | hmem
            · cases heq
              rw [hc0] at hc
              cases hc
              exact Or.inl hr
            · exact Or.inr ⟨imp', idx', w', c, hmem, hg', hc, hr⟩
    · rename_i hg
      rw [ih h]
      constructor
      · rintro ⟨imp', idx', w', c, hmem, hg', hc, hr⟩
        exact ⟨imp', idx', w', c, List.mem_cons_of_mem _ hmem, hg', hc, hr⟩
      · rintro ⟨imp', idx', w', c, hmem, hg', hc, hr⟩
        rcases List.mem_cons.1 hmem with heq | hmem
        · cases heq
          exact absurd hg' hg
        · exact ⟨imp', idx', w', c, hmem, hg', hc, hr⟩

theorem trustedEdges_mem {m : Mapper} {pi : Nat} {p : Publisher}
    {l : List Trusted} {ts : List Triple}
    (h : trustedEdges m pi p l = .ok ts) (t : Triple) :
    t ∈ ts ↔ ∃ e c, e ∈ l ∧ grantApplies e.user e.start e.stop p = true ∧
      m.fromList e.criteria = .ok c ∧
      t = ⟨none, some p.version, c, .trusted pi, freshness p.fresh false⟩ := by
  induction l generalizing ts with
  | nil =>
    simp only [trustedEdges, Except.ok.injEq] at h
    subst h
    simp
  | cons e0 rest ih =>
    simp only [trustedEdges] at h
    split at h
    · rename_i hg
      split at h
      · cases h
      · rename_i c0 hc0
        split at h
        · cases h
        · rename_i ts' hts'
          cases h
          rw [List.mem_cons, ih hts']
          constructor
          · rintro (rfl | ⟨e, c, hmem, hg', hc, hr⟩)
            · exact ⟨e0, c0, List.mem_cons_self, hg, hc0, rfl⟩
            · exact ⟨e, c, List.mem_cons_of_mem _ hmem, hg', hc, hr⟩
          · rintro ⟨e, c, hmem, hg', hc, hr⟩
            rcases List.mem_cons.1 hmem with heq | hmem
            · cases heq
              rw [hc0] at hc
              cases hc
              exact Or.inl hr
            · exact Or.inr ⟨e, c, hmem, hg', hc, hr⟩
    · rename_i hg
      rw [ih h]
      constructor
      · rintro ⟨e, c, hmem, hg', hc, hr⟩
        exact ⟨e, c, List.mem_cons_of_mem _ hmem, hg', hc, hr⟩
      · rintro ⟨e, c, hmem, hg', hc, hr⟩
        rcases List.mem_cons.1 hmem with heq | hmem
        · cases heq
          exact absurd hg' hg
        · exact ⟨e, c, hmem, hg', hc, hr⟩

theorem publisherEdges_mem {m : Mapper} {ws : List (Option Nat × Nat × Wildcard)}
    {tr : List Trusted} {l : List (Publisher × Nat)} {ts : List Triple}
    (h : publisherEdges m ws tr l = .ok ts) (t : Triple) :
    t ∈ ts ↔ ∃ p pi, (p, pi) ∈ l ∧
      ((∃ imp idx w c, (imp, idx, w) ∈ ws ∧ grantApplies w.user w.start w.stop p = true ∧
          m.fromList w.criteria = .ok c ∧
          t = ⟨none, some p.version, c, .wildcard imp idx pi, freshness w.fresh p.fresh⟩) ∨
       (∃ e c, e ∈ tr ∧ grantApplies e.user e.start e.stop p = true ∧
          m.fromList e.criteria = .ok c ∧
          t = ⟨none, some p.version, c, .trusted pi, freshness p.fresh false⟩)) := by
  induction l generalizing ts with
  | nil =>
    simp only [publisherEdges, Except.ok.injEq] at h
    subst h
    simp
  | cons x rest ih =>
    obtain ⟨p0, pi0⟩ := x
    simp only [publisherEdges] at h
    split at h
    · cases h
    · rename_i a ha
      split at h
      · cases h
      · rename_i b hb
        split at h
        · cases h
        · rename_i c hc
          cases h
          rw [List.mem_append, List.mem_append, wildcardEdges_mem ha, trustedEdges_mem hb, ih hc]
          constructor
          · rintro ((hw | ht) | ⟨p, pi, hmem, hr⟩)
            · exact ⟨p0, pi0, List.mem_cons_self, Or.inl hw⟩
            · exact ⟨p0, pi0, List.mem_cons_self, Or.inr ht⟩
            · exact ⟨p, pi, List.mem_cons_of_mem _ hmem, hr⟩
          · rintro ⟨p, pi, hmem, hr⟩
            rcases List.mem_cons.1 hmem with heq | hmem
            · cases heq
              rcases hr with hw | ht
              · exact Or.inl (Or.inl hw)
              · exact Or.inl (Or.inr ht)
            · exact Or.inr ⟨p, pi, hmem, hr⟩

theorem unpubEdges_mem (m : Mapper) (us : List (Unpub × Nat)) (t : Triple) :
    t ∈ unpubEdges m us ↔ ∃ u i, (u, i) ∈ us ∧
      t = ⟨some u.auditedAs, some u.version, m.all, .unpublished i, freshness u.fresh false⟩ := by
  unfold unpubEdges
  rw [List.mem_map]
  constructor
  · rintro ⟨⟨u, i⟩, hmem, rfl⟩
    exact ⟨u, i, hmem, rfl⟩
  · rintro ⟨u, i, hmem, rfl⟩
    exact ⟨(u, i), hmem, rfl⟩

theorem exemptionEdges_mem {m : Mapper} {l : List (Exemption × Nat)} {ts : List Triple}
    (h : exemptionEdges m l = .ok ts) (t : Triple) :
    t ∈ ts ↔ ∃ x i c, (x, i) ∈ l ∧ m.fromList x.criteria = .ok c ∧
      t = ⟨none, some x.version, c, .exemption i, 0⟩ := by
  induction l generalizing ts with
  | nil =>
    simp only [exemptionEdges, Except.ok.injEq] at h
    subst h
    simp
  | cons y rest ih =>
    obtain ⟨x0, i0⟩ := y
    simp only [exemptionEdges] at h
    split at h
    · cases h
    · rename_i c0 hc0
      split at h
      · cases h
      · rename_i ts' hts'
        cases h
        rw [List.mem_cons, ih hts']
        constructor
        · rintro (rfl | ⟨x, i, c, hmem, hc, hr⟩)
          · exact ⟨x0, i0, c0, List.mem_cons_self, hc0, rfl⟩
          · exact ⟨x, i, c, List.mem_cons_of_mem _ hmem, hc, hr⟩
        · rintro ⟨x, i, c, hmem, hc, hr⟩
          rcases List.mem_cons.1 hmem with heq | hmem
          · cases heq
            rw [hc0] at hc
            cases hc
            exact Or.inl hr
          · exact Or.inr ⟨x, i, c, hmem, hc, hr⟩

/-! ### Inversion of `build` -/

theorem build_ok_inv {s : Store} {m : Mapper} {name : Nat} {r : BuildResult}
    (h : build s m name = .ok r) :
    ∃ e1 e2 e4 cs, auditEdges m (allAudits s name) = .ok e1 ∧
      publisherEdges m (allWildcards s name) (getL name s.trusted)
        (getL name s.publishers).zipIdx = .ok e2 ∧
      exemptionEdges m (getL name s.exemptions).zipIdx = .ok e4 ∧
      violationConflicts m (getL name s.exemptions) (allAudits s name) (allAudits s name) = .ok cs ∧
      ((cs = [] ∧ r = .graph ⟨e1 ++ e2 ++ unpubEdges m (getL name s.unpublished).zipIdx ++ e4⟩) ∨
       (cs ≠ [] ∧ r = .conflicts cs)) := by
  simp only [build] at h
  split at h
  · cases h
  · rename_i e1 h1
    split at h
    · cases h
    · rename_i e2 h2
      split at h
      · cases h
      · rename_i e4 h4
        split at h
        · cases h
        · rename_i h5
          cases h
          exact ⟨e1, e2, e4, [], h1, h2, h4, h5, Or.inl ⟨rfl, rfl⟩⟩
        · rename_i cs hne h5
          cases h
          refine ⟨e1, e2, e4, cs, h1, h2, h4, h5, Or.inr ⟨?_, rfl⟩⟩
          rintro rfl
          exact hne rfl

theorem build_graph_inv {s : Store} {m : Mapper} {name : Nat} {g : Graph}
    (h : build s m name = .ok (.graph g)) :
    ∃ e1 e2 e4, auditEdges m (allAudits s name) = .ok e1 ∧
      publisherEdges m (allWildcards s name) (getL name s.trusted)
        (getL name s.publishers).zipIdx = .ok e2 ∧
      exemptionEdges m (getL name s.exemptions).zipIdx = .ok e4 ∧
      violationConflicts m (getL name s.exemptions) (allAudits s name) (allAudits s name) = .ok [] ∧
      g.edges = e1 ++ e2 ++ unpubEdges m (getL name s.unpublished).zipIdx ++ e4 := by
  obtain ⟨e1, e2, e4, cs, h1, h2, h4, h5, hr⟩ := build_ok_inv h
  rcases hr with ⟨rfl, hg⟩ | ⟨_, hg⟩
  · cases hg
    exact ⟨e1, e2, e4, h1, h2, h4, h5, rfl⟩
  · cases hg

/-! ### The conflict check -/

theorem violationSets_mem {m : Mapper} {l : List Nat} {vs : List CSet}
    (h : violationSets m l = .ok vs) {vc : Nat} (hvc : vc ∈ l) {s : CSet}
    (hs : m.fromList [vc] = .ok s) : s ∈ vs := by
  induction l generalizing vs with
  | nil => cases hvc
  | cons c rest ih =>
    simp only [violationSets] at h
    split at h
    · cases h
    · rename_i s0 hs0
      split at h
      · cases h
      · rename_i ss hss
        cases h
        rcases List.mem_cons.1 hvc with rfl | hmem
        · rw [hs0] at hs
          cases hs
          exact List.mem_cons_self
        · exact List.mem_cons_of_mem _ (ih hss hmem)

theorem hits_of_mem {vs : List CSet} {c v : CSet} (hv : v ∈ vs)
    (hsub : CSet.containsSet c v = true) : hits vs c = true := by
  unfold hits
  rw [List.any_eq_true]
  exact ⟨v, hv, hsub⟩

theorem exemptionConflicts_nil {m : Mapper} {vsrc : Option Nat} {viol : Audit}
    {matched : List Nat} {vs : List CSet} {exs : List Exemption}
    (h : exemptionConflicts m vsrc viol matched vs exs = .ok []) {x : Exemption} (hx : x ∈ exs)
    {c : CSet} (hc : m.fromList x.criteria = .ok c) :
    (hits vs c && matched.contains x.version) = false := by
  induction exs with
  | nil => cases hx
  | cons x0 rest ih =>
    simp only [exemptionConflicts] at h
    split at h
    · cases h
    · rename_i c0 hc0
      split at h
      · cases h
      · rename_i cs hcs
        split at h
        · cases h
        · rename_i hcond
          cases h
          rcases List.mem_cons.1 hx with rfl | hmem
          · rw [hc0] at hc
            cases hc
            simpa using hcond
          · exact ih hcs hmem

theorem auditConflicts_nil {m : Mapper} {vsrc : Option Nat} {viol : Audit}
    {matched : List Nat} {vs : List CSet} {l : List (Option Nat × Nat × Audit)}
    (h : auditConflicts m vsrc viol matched vs l = .ok []) {imp : Option Nat} {idx : Nat}
    {a : Audit} (ha : (imp, idx, a) ∈ l) {c : CSet} (hc : m.fromList a.criteria = .ok c) :
    (hits vs c && touches matched a.kind) = false := by
  induction l with
  | nil => cases ha
  | cons y rest ih =>
    obtain ⟨imp0, idx0, a0⟩ := y
    simp only [auditConflicts] at h
    split at h
    · cases h
    · rename_i c0 hc0
      split at h
      · cases h
      · rename_i cs hcs
        split at h
        · cases h
        · rename_i hcond
          cases h
          rcases List.mem_cons.1 ha with heq | hmem
          · cases heq
            rw [hc0] at hc
            cases hc
            simpa using hcond
          · exact ih hcs hmem

theorem violationConflicts_nil {m : Mapper} {exs : List Exemption}
    {audits vl : List (Option Nat × Nat × Audit)}
    (h : violationConflicts m exs audits vl = .ok []) {vsrc : Option Nat} {vidx : Nat}
    {viol : Audit} (hv : (vsrc, vidx, viol) ∈ vl) {matched : List Nat}
    (hk : viol.kind = .violation matched) :
    ∃ vs, violationSets m viol.criteria = .ok vs ∧
      exemptionConflicts m vsrc viol matched vs exs = .ok [] ∧
      auditConflicts m vsrc viol matched vs audits = .ok [] := by
  induction vl with
  | nil => cases hv
  | cons y rest ih =>
    obtain ⟨vsrc0, vidx0, viol0⟩ := y
    simp only [violationConflicts] at h
    split at h
    · rename_i matched0 hk0
      split at h
      · cases h
      · rename_i vs hvs
        split at h
        · cases h
        · rename_i c1 hc1
          split at h
          · cases h
          · rename_i c2 hc2
            split at h
            · cases h
            · rename_i c3 hc3
              simp only [Except.ok.injEq, List.append_eq_nil_iff] at h
              obtain ⟨⟨rfl, rfl⟩, rfl⟩ := h
              rcases List.mem_cons.1 hv with heq | hmem
              · cases heq
                rw [hk0] at hk
                cases hk
                exact ⟨vs, hvs, hc1, hc2⟩
              · exact ih hc3 hmem
    · rename_i hnot
      rcases List.mem_cons.1 hv with heq | hmem
      · cases heq
        exact absurd hk (hnot matched)
      · exact ih h hmem

theorem grantApplies_iff {user start stop : Nat} {p : Publisher} :
    grantApplies user start stop p = true ↔ user = p.user ∧ start ≤ p.day ∧ p.day < stop := by
  simp only [grantApplies, Bool.and_eq_true, beq_iff_eq, decide_eq_true_eq, and_assoc]

end Vet
