/- Helper lemmas for `AuditGraph::build`. -/
import Vet.Spec.Cert
namespace Vet
end Vet
