/- Termination measure for the path search. -/
import Vet.Lemmas.Search
namespace Vet

/-- potential of a queue element: itself, plus the pseudo-edge it may push -/
def qweight (n : QNode) : Nat := if n.ver = none then 1 else 2

def wsum (q : List QNode) : Nat := (q.map qweight).sum

theorem qweight_le (n : QNode) : qweight n ≤ 2 := by
  unfold qweight; split <;> omega

theorem qweight_pos (n : QNode) : 1 ≤ qweight n := by
  unfold qweight; split <;> omega

theorem wsum_nil : wsum [] = 0 := rfl

theorem wsum_cons (n : QNode) (q : List QNode) : wsum (n :: q) = qweight n + wsum q := by
  simp only [wsum, List.map_cons, List.sum_cons]

theorem wsum_append (a b : List QNode) : wsum (a ++ b) = wsum a + wsum b := by
  simp only [wsum, List.map_append, List.sum_append]

theorem wsum_le (q : List QNode) : wsum q ≤ 2 * q.length := by
  induction q with
  | nil => simp [wsum]
  | cons x xs ih =>
    rw [wsum_cons, List.length_cons]
    have := qweight_le x
    omega

theorem popBest_wsum {q : List QNode} {m : QNode} {rest : List QNode}
    (h : popBest q = some (m, rest)) : wsum q = qweight m + wsum rest := by
  have := ((popBest_perm h).map qweight).sum_nat
  simpa only [wsum, List.map_cons, List.sum_cons] using this

/-- number of stored edges whose key version has not been expanded yet -/
def pending {α : Type} (L : List α) (key : α → Option Nat) (vis : List (Option Nat)) : Nat :=
  L.countP (fun t => !vis.contains (key t))

theorem pending_cons {α : Type} (L : List α) (key : α → Option Nat) (vis : List (Option Nat))
    (v : Option Nat) (hv : v ∉ vis) :
    pending L key (v :: vis) + L.countP (fun t => key t == v) ≤ pending L key vis := by
  unfold pending
  induction L with
  | nil => simp
  | cons t ts ih =>
    simp only [List.countP_cons]
    have hstep : (if (!(v :: vis).contains (key t)) = true then 1 else 0) +
        (if (key t == v) = true then 1 else 0) ≤
        (if (!vis.contains (key t)) = true then 1 else 0) := by
      by_cases h1 : key t = v
      · subst h1
        simp [hv]
      · by_cases h2 : key t ∈ vis
        · simp [h1, h2]
        · simp [h1, h2]
    omega

theorem wsum_expand_le (adj : Option Nat → List Edge) (c : Nat) (mode : Mode)
    (vis : List (Option Nat)) (n : QNode) :
    wsum (expand adj c mode vis n) + 1 ≤ 2 * (adj n.ver).length + qweight n := by
  have key : ∀ A B : List QNode, A.length ≤ (adj n.ver).length → wsum B + 1 ≤ qweight n →
      wsum A + wsum B + 1 ≤ 2 * (adj n.ver).length + qweight n := by
    intro A B hA hB
    have := wsum_le A
    omega
  unfold expand
  rw [wsum_append]
  apply key
  · rw [List.length_map]
    exact List.length_filter_le _ _
  · split
    · split
      · rename_i v hv
        simp [wsum, qweight, hv]
      · rename_i hv
        simp [wsum, qweight, hv]
    · have := qweight_pos n
      simp only [wsum_nil]
      omega

theorem searchLoop_fuel {α : Type} (L : List α) (key : α → Option Nat)
    (adj : Option Nat → List Edge) (c : Nat) (tgt : Option Nat) (mode : Mode)
    (hadj : ∀ v, (adj v).length ≤ L.countP (fun t => key t == v)) (fuel : Nat) :
    ∀ (q : List QNode) (vis : List (Option Nat)),
      wsum q + 2 * pending L key vis < fuel →
      searchLoop adj c tgt mode fuel q vis ≠ .outOfFuel := by
  induction fuel with
  | zero => intro q vis h; omega
  | succ fuel ih =>
    intro q vis hμ
    simp only [searchLoop]
    split
    · intro h; cases h
    · rename_i n rest hpop
      have hw := popBest_wsum hpop
      have hpos := qweight_pos n
      split
      · exact ih rest vis (by omega)
      · rename_i hv
        have hv' : n.ver ∉ vis := by simpa using hv
        split
        · intro h; cases h
        · apply ih
          rw [wsum_append]
          have h1 := wsum_expand_le adj c mode (n.ver :: vis) n
          have h2 := pending_cons L key vis n.ver hv'
          have h3 := hadj n.ver
          omega

theorem forward_length (g : Graph) (v : Option Nat) :
    (g.forward v).length ≤ g.edges.countP (fun t => t.src == v) := by
  simp only [Graph.forward, List.length_map, List.countP_eq_length_filter]
  exact Nat.le_refl _

theorem backward_length (g : Graph) (v : Option Nat) :
    (g.backward v).length ≤ g.edges.countP (fun t => t.dst == v) := by
  simp only [Graph.backward, List.length_map, List.countP_eq_length_filter]
  exact Nat.le_refl _

theorem pending_le {α : Type} (L : List α) (key : α → Option Nat) (vis : List (Option Nat)) :
    pending L key vis ≤ L.length := List.countP_le_length

theorem wsum_initQueue (src : Option Nat) :
    wsum [({ ver := src, originVer := src, path := [], caveat := 0 } : QNode)] ≤ 2 := by
  rw [wsum_cons, wsum_nil]
  have := qweight_le { ver := src, originVer := src, path := [], caveat := 0 }
  omega

end Vet
