/- The second unlocked check succeeds: the relocked store is a sub-store of the old one (so no new
conflict), and the first run's chosen paths survive in it. -/
import Vet.Lemmas.TwiceMain
namespace Vet

/-- `resolve` does not panic on a world all of whose third-party crates have a conflict-free graph -/
theorem resolve_ok_of_builds {w' : World} {dg : DepGraph} {m : Mapper} {reqs : List CSet}
    (hdg : DepGraph.new w'.md w'.store.policy = .ok dg) (hm : Mapper.new w'.table = .ok m)
    (hreq : resolveRequirements dg w'.store.policy m = .ok reqs)
    (hb : ∀ x ∈ (List.range dg.nodes.length).zip (dg.nodes.zip reqs), x.2.1.thirdParty = true →
      ∃ g, build w'.store m x.2.1.name = .ok (.graph g)) :
    ∃ r', resolve w' = .ok r' ∧ r'.graph = dg ∧ r'.mapper = m ∧ r'.requirements = reqs := by
  obtain ⟨acc, hacc⟩ := resolveLoop_ok_of _ {} hb
  unfold resolve
  simp only [hdg, hm, hreq, hacc]
  exact ⟨_, rfl, rfl, rfl, rfl⟩

section sub
variable {tb : Table} {m : Mapper} (hm : Mapper.new tb = .ok m)
  (s : Store) (M : Nat → UpdateMode) (lk : Nat → Option (Option Required))
  (ex : List (Nat × List Exemption)) (name : Nat)

include hm in
/-- for crate `name` the relocked store has only (narrowed) records of the old one -/
theorem storeSub_relocked (hold : ∃ g, build s m name = .ok (.graph g))
    (hex : ExOK m s M lk ex name) (hsound : AllExSound m s lk name) :
    StoreSub (relocked s M lk ex) s m name := by
  refine ⟨?_, ?_, ?_, rfl, ?_⟩
  · rintro ⟨imp, j, a'⟩ h
    cases imp with
    | none => exact ⟨(none, j, a'), (relocked_audits_none s M lk ex).1 h, rfl, rfl⟩
    | some ii =>
      obtain ⟨a, ha, rfl⟩ := (relocked_audits_some s M lk ex).1 h
      exact ⟨(some ii, j, a), ha, rfl, rfl⟩
  · rintro ⟨imp, j, a'⟩ h
    cases imp with
    | none => exact ⟨(none, j, a'), (relocked_wildcards_none s M lk ex).1 h, rfl, rfl, rfl, rfl⟩
    | some ii =>
      obtain ⟨a, ha, rfl⟩ := (relocked_wildcards_some s M lk ex).1 h
      exact ⟨(some ii, j, a), ha, rfl, rfl, rfl, rfl⟩
  · intro p' hp'
    obtain ⟨j, hj⟩ := exists_zipIdx_of_mem hp'
    obtain ⟨p, hp, rfl⟩ := (relocked_publishers s M lk ex).1 hj
    exact ⟨p, mem_of_zipIdx hp, rfl, rfl⟩
  · intro x' hx'
    have hx'' : x' ∈ getL name ex := hx'
    obtain ⟨⟨x, i⟩, hxi, l', hl', hx'l⟩ := (updateExemptions_members hex).1 x' hx''
    obtain ⟨_, _, ⟨e4, h4⟩, _⟩ := build_graph_iff.1 hold
    obtain ⟨original, horig⟩ := exemptionEdges_ok_iff.1 ⟨e4, h4⟩ (x, i) hxi
    obtain ⟨l'', hl'', hnarrow, _⟩ := updateExemption_spec hm
      (prune := (M name).pruneExemptions) (req := reqOfLookup lk name) horig
      (hsound x i original hxi horig)
    rw [hl'] at hl''
    cases hl''
    obtain ⟨hver, cs', hcs', hsub⟩ := hnarrow x' hx'l
    exact ⟨x, mem_of_zipIdx hxi, hver, original, cs', horig, hcs', hsub⟩

end sub

/-- the second check, on the mirror definition `relockL` -/
theorem second_check_core (w : World) (u : Updates)
    (hnd : (w.store.exemptions.map (·.1)).Nodup)
    (hu : getStoreUpdates w (fun _ => checkMode) = .ok u)
    (r : Report) (hr : resolve w = .ok r) (a b f : List Nat) (hs : r.conclusion = .success a b f) :
    ∃ r' a' b' f', resolve { w with store := relockL w.store u } = .ok r' ∧
      r'.conclusion = .success a' b' f' := by
  have hmode : ∀ n : Nat, ((fun _ : Nat => checkMode) n).search ≠ .regenerateExemptions := fun _ => by
    show checkMode.search ≠ .regenerateExemptions
    decide
  obtain ⟨dg, m, reqs, required₁, ex₁, hdg, hm, hreq, hall₁, hex₁, facts₁, rfl, hexok₁, hsound₁⟩ :=
    update_facts2 hnd hmode hu
  rw [relockL_updatesOf]
  obtain ⟨hdgr, hmr, hreqr⟩ := resolve_parts hr
  cases (hdg.symm.trans hdgr : Except.ok dg = Except.ok r.graph)
  cases (hm.symm.trans hmr : Except.ok m = Except.ok r.mapper)
  cases (hreq.symm.trans hreqr : Except.ok reqs = Except.ok r.requirements)
  have hrun1 := run1_name hr hs hmode facts₁
  obtain ⟨acc, v⟩ := resolve_view hr
  have hs' := hs
  rw [v.conclusion] at hs'
  obtain ⟨hv, -, -, -, -⟩ := concl_success hs'
  -- every third-party node: a graph in both stores, and chains in the new one
  have hnode : ∀ (i : Nat) (p : PkgNode), r.graph.nodes[i]? = some p → p.thirdParty = true →
      (∃ g₂, build (relocked w.store (fun _ => checkMode) (fun n => assoc? n required₁) ex₁) r.mapper p.name =
        .ok (.graph g₂)) ∧
      ∀ c, r.required i c →
        CertChain (relocked w.store (fun _ => checkMode) (fun n => assoc? n required₁) ex₁) r.mapper p.name c p.ver := by
    intro i p hp htp
    obtain ⟨g₁, hb₁, -⟩ := v.graph_of_no_violation hv (v.item_of_node hp) htp
    replace hb₁ : build w.store r.mapper p.name = .ok (.graph g₁) := hb₁
    obtain ⟨g₂, hb₂⟩ := build_graph_of_sub
      (storeSub_relocked hm w.store _ _ ex₁ p.name ⟨g₁, hb₁⟩ (hexok₁ p.name) (hsound₁ p.name)) ⟨g₁, hb₁⟩
    refine ⟨⟨g₂, hb₂⟩, ?_⟩
    intro c hc
    have hreqi : r.requirements[i]? = some (r.requirements.getD i 0) := by
      obtain ⟨hlt, _⟩ := List.getElem?_eq_some_iff.1 hp
      have hlt' : i < r.requirements.length := by rw [v.hlen]; exact hlt
      simp [List.getD, hlt']
    have hpk : (p.ver, r.requirements.getD i 0) ∈ pkgsOf r.graph r.requirements p.name :=
      mem_pkgsOf.2 ⟨i, p, hp, hreqi, rfl, htp, rfl⟩
    obtain ⟨r₁, hreq₁, h1⟩ := hrun1 p.name
    obtain ⟨g₁', hb₁', hrp₁⟩ := h1 (List.ne_nil_of_mem hpk)
    rw [hb₁] at hb₁'
    cases hb₁'
    obtain ⟨c', hc'min, himp⟩ := minimal_implies hm (r.requirements.getD i 0) hc.1 hc.2
    obtain ⟨path₁, hpath₁, hent₁⟩ :=
      (requiredForPkgs_spec (S := fun _ _ => True) _ [] r₁ hrp₁ (ReqProv.nil _)
        (fun _ _ _ _ _ _ _ _ _ _ _ => trivial)).2.2 p.ver _ hpk c' hc'min
    obtain ⟨l₁, w₁, _⟩ := search_ok hpath₁
    obtain ⟨p', l', w', _⟩ := walk_transfer hm hreq₁ (hexok₁ p.name) (hsound₁ p.name) hb₁ hb₂ w₁ hent₁
    exact ⟨_, (walk_certPath hb₂ w').implies hm himp hc.1⟩
  obtain ⟨r', hr', hg', hm', hq'⟩ := resolve_ok_of_builds
    (w' := { w with store := relocked w.store (fun _ => checkMode) (fun n => assoc? n required₁) ex₁ })
    hdg hm hreq (by
      intro x hx htp
      obtain ⟨i, p, q⟩ := x
      obtain ⟨hp, _⟩ := mem_items.1 hx
      exact (hnode i p hp htp).1)
  obtain ⟨a', b', f', hc'⟩ := C02_no_false_failure _ r' hr'
    (by
      intro i p hp htp
      rw [hg'] at hp
      rw [hm']
      exact (hnode i p hp htp).1)
    (by
      intro i p hp htp c hc
      rw [hg'] at hp
      unfold Report.required at hc
      rw [hm', hq'] at hc
      rw [hm']
      exact (hnode i p hp htp).2 c hc)
  exact ⟨r', a', b', f', hr', hc'⟩

end Vet
