/- Helper lemmas for the crates.io-facing checks. -/
import Vet.Model.Registry
import Vet.Props.C03
import Vet.Props.C11
import Vet.Props.Resolve
namespace Vet
namespace Reg

theorem maxOf_eq_none {l : List Nat} : maxOf l = none ↔ l = [] := by
  cases l with
  | nil => simp only [maxOf]
  | cons x xs =>
    simp only [maxOf]
    constructor
    · intro h; split at h <;> cases h
    · intro h; cases h

theorem minOf_eq_none {l : List Nat} : minOf l = none ↔ l = [] := by
  cases l with
  | nil => simp only [minOf]
  | cons x xs =>
    simp only [minOf]
    constructor
    · intro h; split at h <;> cases h
    · intro h; cases h

theorem maxOf_some {l : List Nat} {m : Nat} (h : maxOf l = some m) :
    m ∈ l ∧ ∀ x ∈ l, x ≤ m := by
  induction l generalizing m with
  | nil => simp only [maxOf] at h; cases h
  | cons x xs ih =>
    simp only [maxOf] at h
    split at h
    · rename_i hn
      cases h
      rw [maxOf_eq_none.1 hn]
      exact ⟨List.mem_cons_self, fun y hy => by
        rcases List.mem_cons.1 hy with rfl | hy
        · exact Nat.le_refl _
        · cases hy⟩
    · rename_i m' hm'
      obtain ⟨hmem, hle⟩ := ih hm'
      cases h
      split
      · rename_i hlt
        refine ⟨List.mem_cons_self, fun y hy => ?_⟩
        rcases List.mem_cons.1 hy with rfl | hy
        · exact Nat.le_refl _
        · have := hle y hy; omega
      · rename_i hlt
        refine ⟨List.mem_cons_of_mem _ hmem, fun y hy => ?_⟩
        rcases List.mem_cons.1 hy with rfl | hy
        · omega
        · exact hle y hy

theorem minOf_some {l : List Nat} {m : Nat} (h : minOf l = some m) :
    m ∈ l ∧ ∀ x ∈ l, m ≤ x := by
  induction l generalizing m with
  | nil => simp only [minOf] at h; cases h
  | cons x xs ih =>
    simp only [minOf] at h
    split at h
    · rename_i hn
      cases h
      rw [minOf_eq_none.1 hn]
      exact ⟨List.mem_cons_self, fun y hy => by
        rcases List.mem_cons.1 hy with rfl | hy
        · exact Nat.le_refl _
        · cases hy⟩
    · rename_i m' hm'
      obtain ⟨hmem, hle⟩ := ih hm'
      cases h
      split
      · rename_i hlt
        refine ⟨List.mem_cons_self, fun y hy => ?_⟩
        rcases List.mem_cons.1 hy with rfl | hy
        · exact Nat.le_refl _
        · have := hle y hy; omega
      · rename_i hlt
        refine ⟨List.mem_cons_of_mem _ hmem, fun y hy => ?_⟩
        rcases List.mem_cons.1 hy with rfl | hy
        · omega
        · exact hle y hy

/-- a maximum is determined by its specification -/
theorem maxOf_of_spec {l : List Nat} {m : Nat} (hm : m ∈ l) (hle : ∀ x ∈ l, x ≤ m) :
    maxOf l = some m := by
  cases h : maxOf l with
  | none => rw [maxOf_eq_none.1 h] at hm; cases hm
  | some m' =>
    obtain ⟨h1, h2⟩ := maxOf_some h
    have := hle m' h1
    have := h2 m hm
    congr 1; omega

theorem auditedAs_spec {published : List Nat} {v a : Nat} (h : auditedAs published v = some a) :
    a ∈ published ∧
    ((a ≤ v ∧ ∀ p ∈ published, p ≤ v → p ≤ a) ∨
     (v < a ∧ (∀ p ∈ published, v < p) ∧ ∀ p ∈ published, a ≤ p)) := by
  unfold auditedAs at h
  split at h
  · rename_i m hm
    cases h
    obtain ⟨hmem, hle⟩ := maxOf_some hm
    rw [List.mem_filter, decide_eq_true_eq] at hmem
    refine ⟨hmem.1, Or.inl ⟨hmem.2, fun p hp hpv => hle p ?_⟩⟩
    rw [List.mem_filter, decide_eq_true_eq]
    exact ⟨hp, hpv⟩
  · rename_i hn
    have hnil := maxOf_eq_none.1 hn
    rw [List.filter_eq_nil_iff] at hnil
    have hall : ∀ p ∈ published, v < p := fun p hp => by
      have := hnil p hp
      rw [decide_eq_true_eq] at this
      omega
    obtain ⟨hmem, hle⟩ := minOf_some h
    rw [List.mem_filter, decide_eq_true_eq] at hmem
    refine ⟨hmem.1, Or.inr ⟨hmem.2, hall, fun p hp => hle p ?_⟩⟩
    rw [List.mem_filter, decide_eq_true_eq]
    exact ⟨hp, hall p hp⟩

theorem auditedAs_exact {published : List Nat} {v : Nat} (hv : v ∈ published) :
    auditedAs published v = some v := by
  unfold auditedAs
  have : maxOf (published.filter (fun p => decide (p ≤ v))) = some v := by
    apply maxOf_of_spec
    · rw [List.mem_filter, decide_eq_true_eq]; exact ⟨hv, Nat.le_refl _⟩
    · intro x hx
      rw [List.mem_filter, decide_eq_true_eq] at hx
      exact hx.2
  rw [this]

theorem auditedAs_total {published : List Nat} {v : Nat} (hne : published ≠ []) :
    ∃ a, auditedAs published v = some a := by
  cases h : auditedAs published v with
  | some a => exact ⟨a, rfl⟩
  | none =>
    exfalso
    unfold auditedAs at h
    split at h
    · cases h
    · rename_i hn
      have h1 := maxOf_eq_none.1 hn
      have h2 := minOf_eq_none.1 h
      rw [List.filter_eq_nil_iff] at h1 h2
      obtain ⟨x, xs, rfl⟩ := List.exists_cons_of_ne_nil hne
      have a := h1 x List.mem_cons_self
      have b := h2 x List.mem_cons_self
      rw [decide_eq_true_eq] at a b
      omega


/-- the marking step only changes `stillUnpublished` -/
def UnpubEntry.Same (e e' : UnpubEntry) : Prop :=
  e'.name = e.name ∧ e'.version = e.version ∧ e'.auditedAs = e.auditedAs ∧ e'.fresh = e.fresh

def markStep (p : FirstParty) (e : UnpubEntry) : UnpubEntry :=
  if e.name = p.name && e.version = p.ver then { e with stillUnpublished := true } else e

theorem markStep_same (p : FirstParty) (e : UnpubEntry) : UnpubEntry.Same e (markStep p e) := by
  unfold markStep
  split <;> exact ⟨rfl, rfl, rfl, rfl⟩

/-- what makes `importUnpublished` add an entry for `p` -/
def Adds (p : FirstParty) (a : Nat) : Prop :=
  p.auditAs = some true ∧ p.isGit = false ∧
    ∃ vs, p.published = some vs ∧ auditedAs vs p.ver = some a ∧ a ≠ p.ver

/-- one step of `importUnpublished`, as a case distinction -/
theorem importUnpublished_cons (acc : List UnpubEntry) (p : FirstParty) (rest : List FirstParty) :
    (importUnpublished acc (p :: rest) = importUnpublished acc rest ∧
      ¬ (p.auditAs = some true ∧ p.isGit = false ∧ (p.published = none ∨ p.published = some []))) ∨
    (importUnpublished acc (p :: rest) = .refused p.name) ∨
    (∃ a, Adds p a ∧ importUnpublished acc (p :: rest) =
      importUnpublished (acc.map (markStep p) ++ [⟨p.name, p.ver, a, true, true⟩]) rest) := by
  simp only [importUnpublished]
  split
  · rename_i hc
    refine Or.inl ⟨rfl, ?_⟩
    rintro ⟨h1, h2, -⟩
    rw [h1, h2] at hc
    simp at hc
  · rename_i hc
    have hc' : p.auditAs = some true ∧ p.isGit = false := by
      rcases hq : p.auditAs with _ | _ | _ <;> cases hg : p.isGit <;> simp [hq, hg] at hc ⊢
    split
    · exact Or.inr (Or.inl rfl)
    · exact Or.inr (Or.inl rfl)
    · rename_i vs hne hvs
      split
      · exact Or.inr (Or.inl rfl)
      · rename_i a ha
        split
        · rename_i hav
          refine Or.inl ⟨rfl, ?_⟩
          rintro ⟨-, -, h | h⟩
          · rw [h] at hvs; cases hvs
          · rw [h] at hvs; cases hvs; exact hne rfl
        · rename_i hav
          exact Or.inr (Or.inr ⟨a, ⟨hc'.1, hc'.2, vs, hvs, ha, hav⟩, rfl⟩)


theorem UnpubEntry.Same.trans {a b c : UnpubEntry} (h1 : UnpubEntry.Same a b) (h2 : UnpubEntry.Same b c) :
    UnpubEntry.Same a c :=
  ⟨h2.1.trans h1.1, h2.2.1.trans h1.2.1, h2.2.2.1.trans h1.2.2.1, h2.2.2.2.trans h1.2.2.2⟩

/-- accumulator entries are carried to the result up to `stillUnpublished` -/
theorem importUnpublished_kept {pkgs : List FirstParty} {acc es : List UnpubEntry}
    (h : importUnpublished acc pkgs = .ok es) :
    ∀ e ∈ acc, ∃ e' ∈ es, UnpubEntry.Same e e' := by
  induction pkgs generalizing acc with
  | nil =>
    simp only [importUnpublished] at h
    cases h
    exact fun e he => ⟨e, he, rfl, rfl, rfl, rfl⟩
  | cons p rest ih =>
    rcases importUnpublished_cons acc p rest with ⟨heq, -⟩ | heq | ⟨a, -, heq⟩
    · rw [heq] at h
      exact ih h
    · rw [heq] at h; cases h
    · rw [heq] at h
      intro e he
      obtain ⟨e', he', hs⟩ := ih h (markStep p e)
        (List.mem_append_left _ (List.mem_map_of_mem he))
      exact ⟨e', he', (markStep_same p e).trans hs⟩

/-- every result entry comes from the accumulator (up to `stillUnpublished`) or is the fresh
entry of a package that `Adds` -/
theorem importUnpublished_from {pkgs : List FirstParty} {acc es : List UnpubEntry}
    (h : importUnpublished acc pkgs = .ok es) :
    ∀ e ∈ es, (∃ e0 ∈ acc, UnpubEntry.Same e0 e) ∨
      (e.fresh = true ∧ ∃ p ∈ pkgs, p.name = e.name ∧ p.ver = e.version ∧ Adds p e.auditedAs) := by
  induction pkgs generalizing acc with
  | nil =>
    simp only [importUnpublished] at h
    cases h
    exact fun e he => Or.inl ⟨e, he, rfl, rfl, rfl, rfl⟩
  | cons p rest ih =>
    rcases importUnpublished_cons acc p rest with ⟨heq, -⟩ | heq | ⟨a, hadd, heq⟩
    · rw [heq] at h
      intro e he
      rcases ih h e he with h1 | ⟨hf, q, hq, hrest⟩
      · exact Or.inl h1
      · exact Or.inr ⟨hf, q, List.mem_cons_of_mem _ hq, hrest⟩
    · rw [heq] at h; cases h
    · rw [heq] at h
      intro e he
      rcases ih h e he with ⟨e0, he0, hs⟩ | ⟨hf, q, hq, hrest⟩
      · rcases List.mem_append.1 he0 with hm | hm
        · obtain ⟨e1, he1, rfl⟩ := List.mem_map.1 hm
          exact Or.inl ⟨e1, he1, (markStep_same p e1).trans hs⟩
        · rw [List.mem_singleton] at hm
          subst hm
          obtain ⟨hn, hv, ha, hf⟩ := hs
          simp only at hn hv ha hf
          refine Or.inr ⟨hf, p, List.mem_cons_self, hn.symm, hv.symm, ?_⟩
          rw [ha]
          exact hadd
      · exact Or.inr ⟨hf, q, List.mem_cons_of_mem _ hq, hrest⟩

theorem importUnpublished_refused {pkgs : List FirstParty} {p : FirstParty} (hp : p ∈ pkgs)
    (ha : p.auditAs = some true) (hg : p.isGit = false)
    (hu : p.published = none ∨ p.published = some []) (acc : List UnpubEntry) :
    ∃ n, importUnpublished acc pkgs = .refused n := by
  induction pkgs generalizing acc with
  | nil => cases hp
  | cons q rest ih =>
    rcases importUnpublished_cons acc q rest with ⟨heq, hno⟩ | heq | ⟨a, hadd, heq⟩
    · rw [heq]
      rcases List.mem_cons.1 hp with rfl | hp'
      · exact absurd ⟨ha, hg, hu⟩ hno
      · exact ih hp' acc
    · exact ⟨_, heq⟩
    · rw [heq]
      rcases List.mem_cons.1 hp with rfl | hp'
      · exfalso
        obtain ⟨-, -, vs, hvs, hau, -⟩ := hadd
        rcases hu with hu | hu
        · rw [hu] at hvs; cases hvs
        · rw [hu] at hvs
          cases hvs
          simp only [auditedAs, List.filter_nil, maxOf, minOf] at hau
          cases hau
      · exact ih hp' _


theorem filterMap_eq_nil {α β : Type} (f : α → Option β) (l : List α) :
    l.filterMap f = [] ↔ ∀ x ∈ l, f x = none := by
  induction l with
  | nil => simp only [List.filterMap_nil, List.not_mem_nil, false_imp_iff, implies_true]
  | cons x xs ih =>
    rw [List.filterMap_cons]
    cases hx : f x with
    | none =>
      simp only [ih, List.mem_cons, forall_eq_or_imp, hx, true_and]
    | some b =>
      simp only [List.mem_cons, forall_eq_or_imp, hx]
      constructor
      · intro h; cases h
      · rintro ⟨h, -⟩; cases h

theorem unused_nil (pe : List (Nat × Option Nat)) (pkgs : List FirstParty) :
    pe.filter (fun (n, v) =>
      !pkgs.any (fun p => p.name == n && (v == none || v == some p.ver))) = [] ↔
    ∀ e ∈ pe, ∃ p ∈ pkgs, p.name = e.1 ∧ (e.2 = none ∨ e.2 = some p.ver) := by
  rw [List.filter_eq_nil_iff]
  apply forall_congr'
  rintro ⟨n, v⟩
  apply imp_congr_right
  intro _
  simp only [Bool.not_eq_true, Bool.not_eq_false', List.any_eq_true, Bool.and_eq_true,
    Bool.or_eq_true, beq_iff_eq]

theorem needs_none (p : FirstParty) :
    (if p.auditAs == some false then none
     else if (p.published.isSome && p.metaMatch) && p.auditAs == none
       then some (AuditAsError.needsAuditAs p.name p.ver) else none) = none ↔
    (p.auditAs ≠ some false → (p.published.isSome && p.metaMatch) = true → p.auditAs ≠ none) := by
  rcases p.auditAs with _ | _ | _ <;> cases (p.published.isSome && p.metaMatch) <;> simp

theorem shouldnt_none (p : FirstParty) :
    (if p.auditAs == some false then none
     else if !(p.published.isSome && p.metaMatch) && p.auditAs == some true
       then some (AuditAsError.shouldntBeAuditAs p.name p.ver) else none) = none ↔
    (p.auditAs ≠ some false → (p.published.isSome && p.metaMatch) = false → p.auditAs ≠ some true) := by
  rcases p.auditAs with _ | _ | _ <;> cases (p.published.isSome && p.metaMatch) <;> simp

theorem checkAuditAs_nil (pe : List (Nat × Option Nat)) (pkgs : List FirstParty) :
    checkAuditAs pe pkgs = [] ↔
      (∀ e ∈ pe, ∃ p ∈ pkgs, p.name = e.1 ∧ (e.2 = none ∨ e.2 = some p.ver)) ∧
      (∀ p ∈ pkgs, p.auditAs ≠ some false →
        ((p.published.isSome && p.metaMatch) = true → p.auditAs ≠ none) ∧
        ((p.published.isSome && p.metaMatch) = false → p.auditAs ≠ some true)) := by
  unfold checkAuditAs
  simp only [List.append_eq_nil_iff, List.map_eq_nil_iff, filterMap_eq_nil]
  rw [unused_nil]
  simp only [needs_none, shouldnt_none]
  constructor
  · rintro ⟨⟨h1, h2⟩, h3⟩
    exact ⟨h1, fun p hp hf => ⟨h2 p hp hf, h3 p hp hf⟩⟩
  · rintro ⟨h1, h2⟩
    exact ⟨⟨h1, fun p hp hf => (h2 p hp hf).1⟩, fun p hp hf => (h2 p hp hf).2⟩

end Reg
end Vet
