/- `allRequired` / `requiredEntries`: what the recorded entries of a crate stand for. -/
import Vet.Lemmas.PreserveExempt
import Vet.Lemmas.PreserveSearch
namespace Vet

/-- the third-party packages of one crate name with their requirements -/
def pkgsOf (dg : DepGraph) (reqs : List CSet) (name : Nat) : List (Nat × CSet) :=
  ((dg.nodes.zip reqs).filter (fun x => x.1.name == name && x.1.thirdParty)).map (fun x => (x.1.ver, x.2))

theorem requiredEntries_cases {dg : DepGraph} {m : Mapper} {reqs : List CSet} {s : Store} {name : Nat}
    {mode : Mode} {ro : Option Required} (h : requiredEntries dg m reqs s name mode = .ok ro) :
    (pkgsOf dg reqs name = [] ∧ ro = some []) ∨
    (pkgsOf dg reqs name ≠ [] ∧
      ((∃ cs, build s m name = .ok (.conflicts cs) ∧ ro = none) ∨
       (∃ g, build s m name = .ok (.graph g) ∧
          requiredForPkgs g m mode (pkgsOf dg reqs name) [] = .ok ro))) := by
  unfold requiredEntries at h
  simp only at h
  split at h
  · rename_i hemp
    cases h
    exact Or.inl ⟨List.isEmpty_iff.1 hemp, rfl⟩
  · rename_i hemp
    right
    refine ⟨fun hnil => hemp (List.isEmpty_iff.2 hnil), ?_⟩
    split at h
    · cases h
    · rename_i cs hb
      cases h
      exact Or.inl ⟨cs, hb, rfl⟩
    · rename_i g hb
      exact Or.inr ⟨g, hb, h⟩

/-! ### `allRequired` -/

theorem assoc?_append_of_none {β : Type} {k : Nat} {a b : List (Nat × β)} (h : assoc? k a = none) :
    assoc? k (a ++ b) = assoc? k b := by
  induction a with
  | nil => rfl
  | cons x xs ih =>
    obtain ⟨n, v⟩ := x
    simp only [assoc?] at h
    split at h
    · cases h
    · rename_i hn
      simp only [List.cons_append, assoc?, hn, if_false]
      exact ih h

theorem assoc?_append_of_some {β : Type} {k : Nat} {a b : List (Nat × β)} {v : β} (h : assoc? k a = some v) :
    assoc? k (a ++ b) = some v := by
  induction a with
  | nil => cases h
  | cons x xs ih =>
    obtain ⟨n, v'⟩ := x
    simp only [assoc?] at h
    simp only [List.cons_append, assoc?]
    split at h
    · rename_i hn
      rw [if_pos hn]
      exact h
    · rename_i hn
      rw [if_neg hn]
      exact ih h

theorem any_key_iff {β : Type} {acc : List (Nat × β)} {n : Nat} :
    acc.any (fun e => e.1 == n) = true ↔ ∃ v, assoc? n acc = some v := by
  induction acc with
  | nil => simp [assoc?]
  | cons x xs ih =>
    obtain ⟨k, v⟩ := x
    simp only [List.any_cons, Bool.or_eq_true, beq_iff_eq, assoc?]
    by_cases hk : k = n
    · simp [hk]
    · simp [hk, ih]

theorem allRequired_spec {dg : DepGraph} {m : Mapper} {reqs : List CSet} {s : Store}
    {modeOf : Nat → UpdateMode} (ns : List Nat) (acc out : List (Nat × Option Required))
    (h : allRequired dg m reqs s modeOf ns acc = .ok out) :
    (∀ n ro, assoc? n out = some ro →
      assoc? n acc = some ro ∨ requiredEntries dg m reqs s n (modeOf n).search = .ok ro) ∧
    (∀ x ∈ out, x ∈ acc ∨ requiredEntries dg m reqs s x.1 (modeOf x.1).search = .ok x.2) ∧
    (∀ n ro, assoc? n acc = some ro → assoc? n out = some ro) ∧
    (∀ n ∈ ns, ∃ ro, assoc? n out = some ro) ∧
    (∀ n, n ∉ ns → assoc? n acc = none → assoc? n out = none) := by
  induction ns generalizing acc with
  | nil =>
    simp only [allRequired, Except.ok.injEq] at h
    subst h
    refine ⟨fun n ro hn => Or.inl hn, fun x hx => Or.inl hx, fun n ro hn => hn, ?_, fun n _ hn => hn⟩
    intro n hn
    cases hn
  | cons n0 ns ih =>
    simp only [allRequired] at h
    split at h
    · rename_i hany
      obtain ⟨h1, h2, h3, h4, h5⟩ := ih acc h
      refine ⟨h1, h2, h3, ?_, ?_⟩
      · intro n hn
        rcases List.mem_cons.1 hn with rfl | hn
        · obtain ⟨v, hv⟩ := any_key_iff.1 hany
          exact ⟨v, h3 n v hv⟩
        · exact h4 n hn
      · intro n hn hacc
        exact h5 n (fun hmem => hn (List.mem_cons_of_mem _ hmem)) hacc
    · rename_i hany
      have hnone : assoc? n0 acc = none := by
        cases hv : assoc? n0 acc with
        | none => rfl
        | some v => exact absurd (any_key_iff.2 ⟨v, hv⟩) hany
      split at h
      · cases h
      · rename_i r hr
        obtain ⟨h1, h2, h3, h4, h5⟩ := ih _ h
        have hn0 : assoc? n0 (acc ++ [(n0, r)]) = some r := by
          rw [assoc?_append_of_none hnone]
          simp [assoc?]
        refine ⟨?_, ?_, ?_, ?_, ?_⟩
        · intro n ro hn
          rcases h1 n ro hn with h' | h'
          · by_cases hnn : n = n0
            · subst hnn
              rw [hn0] at h'
              cases h'
              exact Or.inr hr
            · cases ha : assoc? n acc with
              | some v =>
                rw [assoc?_append_of_some ha] at h'
                exact Or.inl h'
              | none =>
                rw [assoc?_append_of_none ha] at h'
                simp [assoc?, Ne.symm hnn] at h'
          · exact Or.inr h'
        · intro x hx
          rcases h2 x hx with h' | h'
          · rcases List.mem_append.1 h' with h' | h'
            · exact Or.inl h'
            · rw [List.mem_singleton] at h'
              subst h'
              exact Or.inr hr
          · exact Or.inr h'
        · intro n ro hn
          exact h3 n ro (assoc?_append_of_some hn)
        · intro n hn
          rcases List.mem_cons.1 hn with rfl | hn
          · exact ⟨r, h3 n r hn0⟩
          · exact h4 n hn
        · intro n hn hacc
          apply h5 n (fun hmem => hn (List.mem_cons_of_mem _ hmem))
          rw [assoc?_append_of_none hacc]
          have : n0 ≠ n := fun e => hn (e ▸ List.mem_cons_self)
          simp [assoc?, this]

/-- what `getStoreUpdates` knows about the required-entries table -/
structure ReqFacts (dg : DepGraph) (m : Mapper) (reqs : List CSet) (s : Store) (modeOf : Nat → UpdateMode)
    (required : List (Nat × Option Required)) : Prop where
  ok : ∀ n ro, assoc? n required = some ro → requiredEntries dg m reqs s n (modeOf n).search = .ok ro
  mem : ∀ x ∈ required, requiredEntries dg m reqs s x.1 (modeOf x.1).search = .ok x.2
  names : ∀ n ∈ dg.nodes.map (·.name), ∃ ro, assoc? n required = some ro

theorem allRequired_facts {dg : DepGraph} {m : Mapper} {reqs : List CSet} {s : Store}
    {modeOf : Nat → UpdateMode} {required : List (Nat × Option Required)}
    (h : allRequired dg m reqs s modeOf (dg.nodes.map (·.name)) [] = .ok required) :
    ReqFacts dg m reqs s modeOf required := by
  obtain ⟨h1, h2, _, h4, _⟩ := allRequired_spec _ _ _ h
  refine ⟨?_, ?_, h4⟩
  · intro n ro hn
    rcases h1 n ro hn with h' | h'
    · cases h'
    · exact h'
  · intro x hx
    rcases h2 x hx with h' | h'
    · cases h'
    · exact h'

/-! ### the entries recorded for a crate are records of that crate -/

theorem CertPath.edge_of_mem {s : Store} {m : Mapper} {name c : Nat} {a b : Option Nat} {p : List Origin}
    (cp : CertPath s m name c a p b) {o : Origin} (ho : o ∈ p) : ∃ a' b', CertEdge s m name c a' o b' := by
  induction cp with
  | nil a => cases ho
  | cons he _ ih =>
    rcases List.mem_cons.1 ho with rfl | ho
    · exact ⟨_, _, he⟩
    · exact ih ho

theorem CertEdge.exemption_inv {s : Store} {m : Mapper} {name c i : Nat} {a b : Option Nat}
    (h : CertEdge s m name c a (.exemption i) b) :
    ∃ x cs, (x, i) ∈ (getL name s.exemptions).zipIdx ∧ m.fromList x.criteria = .ok cs ∧
      cs.testBit c = true ∧ a = none ∧ b = some x.version := by
  generalize ho : Origin.exemption i = o at h
  cases h with
  | @full imp _ _ _ _ hm hk hcs hb => cases imp <;> simp [auditOrigin] at ho
  | @delta imp _ _ _ _ _ hm hk hcs hb => cases imp <;> simp [auditOrigin] at ho
  | wildcard => cases ho
  | trusted => cases ho
  | unpublished => cases ho
  | exemption hm hcs hb =>
    cases ho
    exact ⟨_, _, hm, hcs, hb, rfl, rfl⟩

theorem CertEdge.not_fresh {s : Store} {m : Mapper} {name c v : Nat} {a b : Option Nat}
    (h : CertEdge s m name c a (.freshExemption v) b) : False := by
  generalize ho : Origin.freshExemption v = o at h
  cases h with
  | @full imp _ _ _ _ hm hk hcs hb => cases imp <;> simp [auditOrigin] at ho
  | @delta imp _ _ _ _ _ hm hk hcs hb => cases imp <;> simp [auditOrigin] at ho
  | wildcard => cases ho
  | trusted => cases ho
  | unpublished => cases ho
  | exemption => cases ho

theorem exemption_mem_originEntries {o : Origin} {i : Nat} (h : ReqEntry.exemption i ∈ originEntries o) :
    o = .exemption i := by
  cases o with
  | wildcard imp _ _ => cases imp <;> simp [originEntries] at h
  | exemption j =>
    simp only [originEntries, List.mem_singleton, ReqEntry.exemption.injEq] at h
    rw [h]
  | _ => simp [originEntries] at h

theorem fresh_mem_originEntries {o : Origin} {v : Nat} (h : ReqEntry.freshExemption v ∈ originEntries o) :
    o = .freshExemption v := by
  cases o with
  | wildcard imp _ _ => cases imp <;> simp [originEntries] at h
  | freshExemption j =>
    simp only [originEntries, List.mem_singleton, ReqEntry.freshExemption.injEq] at h
    rw [h]
  | _ => simp [originEntries] at h

/-- every entry recorded comes from a certifying record of the old store -/
theorem pathSrc_edge {s : Store} {m : Mapper} {name : Nat} {g : Graph}
    (hb : build s m name = .ok (.graph g)) {mode : Mode} (hm : mode ≠ .regenerateExemptions)
    {pkgs : List (Nat × CSet)} {e : ReqEntry} {c : Nat} (h : PathSrc g m mode pkgs e c) :
    ∃ o a b, e ∈ originEntries o ∧ CertEdge s m name c a o b := by
  obtain ⟨ver, req, _, _, path, hpath, o, ho, he⟩ := h
  have cp := search_ok_certPath_mode hb hm hpath
  obtain ⟨a, b, hedge⟩ := cp.edge_of_mem (List.mem_reverse.2 ho)
  exact ⟨o, a, b, he, hedge⟩

theorem required_sound {s : Store} {m : Mapper} {name : Nat} {g : Graph}
    (hb : build s m name = .ok (.graph g)) {mode : Mode} (hm : mode ≠ .regenerateExemptions)
    {pkgs : List (Nat × CSet)} {r : Required} (h : requiredForPkgs g m mode pkgs [] = .ok (some r)) :
    (∀ idx su c, r.get? (.exemption idx) = some su → su.testBit c = true →
      ∃ x cs, (x, idx) ∈ (getL name s.exemptions).zipIdx ∧ m.fromList x.criteria = .ok cs ∧
        cs.testBit c = true) ∧
    (∀ v, r.get? (.freshExemption v) = none) := by
  have hp := requiredForPkgs_prov pkgs r h
  constructor
  · intro idx su c hg hc
    obtain ⟨o, a, b, he, hedge⟩ := pathSrc_edge hb hm ((hp _ su hg).2 c hc)
    rw [exemption_mem_originEntries he] at hedge
    obtain ⟨x, cs, hx, hcs, hbit, _, _⟩ := hedge.exemption_inv
    exact ⟨x, cs, hx, hcs, hbit⟩
  · intro v
    cases hg : r.get? (.freshExemption v) with
    | none => rfl
    | some su =>
      exfalso
      obtain ⟨⟨c, hc⟩, hall⟩ := hp _ su hg
      obtain ⟨o, a, b, he, hedge⟩ := pathSrc_edge hb hm (hall c hc)
      rw [fresh_mem_originEntries he] at hedge
      exact hedge.not_fresh

/-- whatever `requiredEntries` returns for a crate is sound for that crate -/
theorem requiredEntries_sound {dg : DepGraph} {m : Mapper} {reqs : List CSet} {s : Store} {name : Nat}
    {mode : Mode} (hm : mode ≠ .regenerateExemptions) {r : Required}
    (h : requiredEntries dg m reqs s name mode = .ok (some r)) :
    (∀ idx su c, r.get? (.exemption idx) = some su → su.testBit c = true →
      ∃ x cs, (x, idx) ∈ (getL name s.exemptions).zipIdx ∧ m.fromList x.criteria = .ok cs ∧
        cs.testBit c = true) ∧
    (∀ v, r.get? (.freshExemption v) = none) := by
  rcases requiredEntries_cases h with ⟨_, hr⟩ | ⟨_, ⟨cs, _, hr⟩ | ⟨g, hb, hr⟩⟩
  · cases hr
    refine ⟨?_, fun v => rfl⟩
    intro idx su c hg
    cases hg
  · cases hr
  · exact required_sound hb hm hr

end Vet
