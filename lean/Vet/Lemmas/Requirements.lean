/- Helper lemmas for `resolve_requirements`. -/
import Vet.Spec.Demand
namespace Vet
end Vet
