/- Helper lemmas for `resolve_requirements`. -/
import Vet.Spec.Demand
namespace Vet

/-! ### bitmask facts -/

theorem orAll_foldl_testBit (l : List CSet) (acc : CSet) (b : Nat) :
    (l.foldl (· ||| ·) acc).testBit b = true ↔
      acc.testBit b = true ∨ ∃ x ∈ l, x.testBit b = true := by
  induction l generalizing acc with
  | nil => simp
  | cons a rest ih =>
    simp only [List.foldl_cons, ih, Nat.testBit_or, Bool.or_eq_true, List.mem_cons,
      exists_eq_or_imp, or_assoc]

theorem orAll_testBit (l : List CSet) (b : Nat) :
    (orAll l).testBit b = true ↔ ∃ x ∈ l, x.testBit b = true := by
  simp [orAll, orAll_foldl_testBit]

theorem orAll_map_testBit {α : Type} (l : List α) (f : α → CSet) (b : Nat) :
    (orAll (l.map f)).testBit b = true ↔ ∃ q ∈ l, (f q).testBit b = true := by
  rw [orAll_testBit]
  constructor
  · rintro ⟨x, hx, hb⟩
    rcases List.mem_map.1 hx with ⟨q, hq, rfl⟩
    exact ⟨q, hq, hb⟩
  · rintro ⟨q, hq, hb⟩
    exact ⟨f q, List.mem_map.2 ⟨q, hq, rfl⟩, hb⟩

theorem CSet.sub_refl (a : CSet) : CSet.sub a a := fun _ h => h

theorem CSet.sub_trans {a b c : CSet} (h₁ : CSet.sub a b) (h₂ : CSet.sub b c) : CSet.sub a c :=
  fun i h => h₂ i (h₁ i h)

theorem CSet.sub_antisymm {a b : CSet} (h₁ : CSet.sub a b) (h₂ : CSet.sub b a) : a = b := by
  apply Nat.eq_of_testBit_eq
  intro i
  have h1 := h₁ i
  have h2 := h₂ i
  cases ha : a.testBit i <;> cases hb : b.testBit i <;> simp_all

/-! ### `setAt` -/

theorem setAt_length (l : List CSet) (i : Nat) (f : CSet → CSet) :
    (setAt l i f).length = l.length := by
  simp [setAt]

theorem setAt_getD (l : List CSet) (i j : Nat) (f : CSet → CSet) :
    (setAt l i f).getD j 0 =
      if j = i ∧ j < l.length then f (l.getD j 0) else l.getD j 0 := by
  simp only [setAt, List.getD_eq_getElem?_getD, List.getElem?_map, List.getElem?_zipIdx]
  by_cases hj : j < l.length
  · simp only [List.getElem?_eq_getElem hj, Option.map_some, Option.getD_some, Nat.zero_add, hj,
      and_true]
  · simp [hj]

/-! ### `fromList` / `cl` -/

theorem cl_of_ok {m : Mapper} {l : List Nat} {s : CSet} (h : m.fromList l = .ok s) :
    m.cl l = s := by
  simp [Mapper.cl, h]

/-! ### `pushDeps` -/

theorem or_or_self (x e : Nat) : x ||| e ||| e = x ||| e := by
  rw [Nat.or_assoc, Nat.or_self]

theorem pushDeps_spec (g : DepGraph) (m : Mapper) (pe : Option PolicyEntry) (dflt : CSet)
    (ds : List Nat) (req req' : List CSet) (h : pushDeps g m pe dflt ds req = .ok req') :
    req'.length = req.length ∧
    ∀ j, req'.getD j 0 =
      if j ∈ ds ∧ j < req.length then req.getD j 0 ||| edgeDemand g m pe j dflt
      else req.getD j 0 := by
  induction ds generalizing req with
  | nil =>
    simp only [pushDeps] at h
    cases h
    simp
  | cons d ds ih =>
    simp only [pushDeps] at h
    have key : ∀ c, c = edgeDemand g m pe d dflt →
        pushDeps g m pe dflt ds (setAt req d (· ||| c)) = .ok req' →
        req'.length = req.length ∧
        ∀ j, req'.getD j 0 =
          if j ∈ d :: ds ∧ j < req.length then req.getD j 0 ||| edgeDemand g m pe j dflt
          else req.getD j 0 := by
      intro c hc h2
      obtain ⟨hl, hv⟩ := ih _ h2
      rw [setAt_length] at hl hv
      refine ⟨hl, fun j => ?_⟩
      rw [hv j, setAt_getD]
      subst hc
      by_cases hjd : j = d
      · subst hjd
        by_cases hlt : j < req.length <;> by_cases hm : j ∈ ds <;> simp [hlt, hm, or_or_self]
      · simp [hjd]
    split at h
    · rename_i l hov
      split at h
      · cases h
      · rename_i c hc
        refine key c ?_ h
        simp only [edgeDemand, DepGraph.node, defaultNode, hov, cl_of_ok hc]
    · rename_i hov
      refine key dflt ?_ h
      simp only [edgeDemand, DepGraph.node, defaultNode, hov]

/-! ### `devLoop` -/

theorem node_append (g : DepGraph) (pre : List PkgNode) (p : PkgNode) (ps : List PkgNode)
    (hg : g.nodes = pre ++ p :: ps) : g.node pre.length = p := by
  simp [DepGraph.node, hg]

theorem devDemand_of_ok (g : DepGraph) (pol : Policy) (m : Mapper) (q : Nat) (c : CSet)
    (h : critOrDefault m ((g.policyOf pol q).bind (·.devCriteria)) 0 = .ok c) :
    devDemand g pol m q = c := by
  simp only [critOrDefault] at h
  simp only [devDemand]
  split at h <;> rename_i hx <;> simp only [hx, cl_of_ok h]

theorem devLoop_spec (g : DepGraph) (pol : Policy) (m : Mapper) (ps : List PkgNode)
    (pre : List PkgNode) (req req' : List CSet) (hg : g.nodes = pre ++ ps)
    (h : devLoop g pol m ps req = .ok req') :
    req'.length = req.length ∧
    ∀ j b, (req'.getD j 0).testBit b = true ↔
      (req.getD j 0).testBit b = true ∨
      ∃ q, pre.length ≤ q ∧ q < g.nodes.length ∧ j ∈ (g.node q).devDeps ∧ j < req.length ∧
        (edgeDemand g m (g.policyOf pol q) j (devDemand g pol m q)).testBit b = true := by
  induction ps generalizing pre req with
  | nil =>
    simp only [devLoop] at h
    cases h
    refine ⟨rfl, fun j b => ?_⟩
    simp only [List.append_nil] at hg
    constructor
    · exact Or.inl
    · rintro (h | ⟨q, h1, h2, _⟩)
      · exact h
      · rw [hg] at h2; omega
  | cons p ps ih =>
    have hp : g.node pre.length = p := node_append g pre p ps hg
    have hg' : g.nodes = (pre ++ [p]) ++ ps := by simp [hg]
    have hlen : g.nodes.length = pre.length + 1 + ps.length := by simp [hg]; omega
    simp only [devLoop] at h
    split at h
    · rename_i hemp
      obtain ⟨hl, hv⟩ := ih (pre ++ [p]) req hg' h
      refine ⟨hl, fun j b => ?_⟩
      rw [hv j b]
      simp only [List.length_append, List.length_cons, List.length_nil]
      constructor
      · rintro (h | ⟨q, h1, h2⟩)
        · exact Or.inl h
        · exact Or.inr ⟨q, by omega, h2⟩
      · rintro (h | ⟨q, h1, h2, h3, h4⟩)
        · exact Or.inl h
        · by_cases hq : q = pre.length
          · subst hq
            rw [hp] at h3
            simp only [List.isEmpty_iff] at hemp
            simp [hemp] at h3
          · exact Or.inr ⟨q, by omega, h2, h3, h4⟩
    · rename_i hemp
      split at h
      · cases h
      · rename_i devC hdev
        split at h
        · cases h
        · rename_i req1 hpush
          have hpe : pol.get p.name p.ver = g.policyOf pol pre.length := by
            simp only [DepGraph.policyOf, hp]
          rw [hpe] at hdev hpush
          have hdd := devDemand_of_ok g pol m pre.length devC hdev
          subst hdd
          obtain ⟨hl1, hv1⟩ := pushDeps_spec g m _ _ _ _ _ hpush
          obtain ⟨hl, hv⟩ := ih (pre ++ [p]) req1 hg' h
          refine ⟨by rw [hl, hl1], fun j b => ?_⟩
          rw [hv j b, hv1 j, hl1]
          simp only [List.length_append, List.length_cons, List.length_nil]
          constructor
          · rintro (h | ⟨q, h1, h2⟩)
            · split at h
              · rename_i hc
                simp only [Nat.testBit_or, Bool.or_eq_true] at h
                rcases h with h | h
                · exact Or.inl h
                · exact Or.inr ⟨pre.length, Nat.le_refl _, by omega, by rw [hp]; exact hc.1, hc.2, h⟩
              · exact Or.inl h
            · exact Or.inr ⟨q, by omega, h2⟩
          · rintro (h | ⟨q, h1, h2, h3, h4, h5⟩)
            · left
              split
              · simp only [Nat.testBit_or, h, Bool.true_or]
              · exact h
            · by_cases hq : q = pre.length
              · subst hq
                rw [hp] at h3
                left
                rw [if_pos ⟨h3, h4⟩]
                simp only [Nat.testBit_or, h5, Bool.or_true]
              · exact Or.inr ⟨q, by omega, h2, h3, h4, h5⟩

/-! ### components of `ruleRhs` -/

/-- the dev-dependency component of `ruleRhs` -/
def devVal (g : DepGraph) (pol : Policy) (m : Mapper) (p : Nat) : CSet :=
  orAll (((List.range g.nodes.length).filter (fun q => (g.node q).devDeps.contains p)).map
    (fun q => edgeDemand g m (g.policyOf pol q) p (devDemand g pol m q)))

/-- the normal/build component of `ruleRhs` -/
def nbVal (g : DepGraph) (pol : Policy) (m : Mapper) (D : Nat → CSet) (p : Nat) : CSet :=
  orAll ((g.topo.filter (fun q => (g.node q).normalBuildDeps.contains p)).map
    (fun q => edgeDemand g m (g.policyOf pol q) p (D q)))

theorem devVal_testBit (g : DepGraph) (pol : Policy) (m : Mapper) (p b : Nat) :
    (devVal g pol m p).testBit b = true ↔
      ∃ q, q < g.nodes.length ∧ p ∈ (g.node q).devDeps ∧
        (edgeDemand g m (g.policyOf pol q) p (devDemand g pol m q)).testBit b = true := by
  simp only [devVal, orAll_map_testBit, List.mem_filter, List.mem_range, List.contains_iff_mem,
    and_assoc]

theorem nbVal_testBit (g : DepGraph) (pol : Policy) (m : Mapper) (D : Nat → CSet) (p b : Nat) :
    (nbVal g pol m D p).testBit b = true ↔
      ∃ q, q ∈ g.topo ∧ p ∈ (g.node q).normalBuildDeps ∧
        (edgeDemand g m (g.policyOf pol q) p (D q)).testBit b = true := by
  simp only [nbVal, orAll_map_testBit, List.mem_filter, List.contains_iff_mem, and_assoc]

theorem ruleRhs_eq (g : DepGraph) (pol : Policy) (m : Mapper) (D : Nat → CSet) (p : Nat) :
    ruleRhs g pol m D p =
      match (g.policyOf pol p).bind (·.criteria) with
      | some c => m.cl c
      | none => (if (g.node p).isRoot then m.cl [1] else 0) ||| nbVal g pol m D p ||| devVal g pol m p :=
  rfl

theorem devLoop_init (g : DepGraph) (pol : Policy) (m : Mapper) (req : List CSet)
    (h : devLoop g pol m g.nodes (List.replicate g.nodes.length 0) = .ok req) :
    req.length = g.nodes.length ∧
    ∀ j b, (req.getD j 0).testBit b = true ↔ j < g.nodes.length ∧ (devVal g pol m j).testBit b = true := by
  obtain ⟨hl, hv⟩ := devLoop_spec g pol m g.nodes [] _ req (by simp) h
  simp only [List.length_replicate] at hl hv
  refine ⟨hl, fun j b => ?_⟩
  rw [hv j b, devVal_testBit]
  have h0 : (List.replicate g.nodes.length 0).getD j 0 = 0 := by
    simp only [List.getD_eq_getElem?_getD, List.getElem?_replicate]
    split <;> rfl
  simp only [h0, Nat.zero_testBit, Bool.false_eq_true, false_or, List.length_nil, Nat.zero_le, true_and]
  constructor
  · rintro ⟨q, h1, h2, h3, h4⟩
    exact ⟨h3, q, h1, h2, h4⟩
  · rintro ⟨h3, q, h1, h2, h4⟩
    exact ⟨q, h1, h2, h3, h4⟩


/-! ### the parents-first order -/

theorem nodup_reverse' (l : List Nat) (h : l.Nodup) : l.reverse.Nodup := by
  rw [List.Nodup, List.pairwise_reverse]
  exact h.imp (fun hab => Ne.symm hab)

/-- parents-first order: the reversed `topo`. -/
structure RevOK (g : DepGraph) (L : List Nat) : Prop where
  nodup : L.Nodup
  order : ∀ done i todo, L = done ++ i :: todo → ∀ d ∈ (g.node i).normalBuildDeps, d ∈ todo

theorem ValidTopo.revOK {g : DepGraph} (hv : ValidTopo g) : RevOK g g.topo.reverse where
  nodup := nodup_reverse' _ hv.nodup
  order := by
    intro done i todo hL d hd
    have ht : g.topo = todo.reverse ++ i :: done.reverse := by
      have := congrArg List.reverse hL
      simpa using this
    have := hv.order _ _ _ ht d hd
    simpa using this

theorem RevOK.dep_fresh {g : DepGraph} {L done todo : List Nat} {i d : Nat} (h : RevOK g L)
    (hL : L = done ++ i :: todo) (hd : d ∈ (g.node i).normalBuildDeps) :
    d ∉ done ∧ d ≠ i := by
  have hin := h.order _ _ _ hL d hd
  have hn := h.nodup
  rw [hL] at hn
  rw [List.nodup_append] at hn
  obtain ⟨_, h2, h3⟩ := hn
  rw [List.nodup_cons] at h2
  constructor
  · intro hdd
    exact h3 d hdd d (List.mem_cons_of_mem _ hin) rfl
  · rintro rfl
    exact h2.1 hin

/-- a parent of an already processed package is already processed -/
theorem RevOK.parent_done {g : DepGraph} {L done rest : List Nat} {p q : Nat} (h : RevOK g L)
    (hL : L = done ++ rest) (hp : p ∈ done) (hq : q ∈ L) (hpq : p ∈ (g.node q).normalBuildDeps) :
    q ∈ done := by
  rw [hL, List.mem_append] at hq
  rcases hq with hq | hq
  · exact hq
  · exfalso
    obtain ⟨r1, r2, hr⟩ := List.append_of_mem hq
    have hL' : L = (done ++ r1) ++ q :: r2 := by rw [hL, hr, List.append_assoc]
    exact (h.dep_fresh hL' hpq).1 (List.mem_append_left _ hp)

theorem RevOK.parent_done' {g : DepGraph} {L done todo : List Nat} {i q : Nat} (h : RevOK g L)
    (hL : L = done ++ i :: todo) (hq : q ∈ L) (hpq : i ∈ (g.node q).normalBuildDeps) :
    q ∈ done := by
  have hL' : L = (done ++ [i]) ++ todo := by simp [hL]
  have := h.parent_done hL' (List.mem_append_right _ (List.mem_singleton_self i)) hq hpq
  rw [List.mem_append, List.mem_singleton] at this
  rcases this with h1 | rfl
  · exact h1
  · exact absurd rfl (h.dep_fresh hL hpq).2

theorem RevOK.not_done {g : DepGraph} {L done todo : List Nat} {i : Nat} (h : RevOK g L)
    (hL : L = done ++ i :: todo) : i ∉ done := by
  have hn := h.nodup
  rw [hL, List.nodup_append] at hn
  intro hi
  exact hn.2.2 i hi i (List.mem_cons_self) rfl

/-- induction along the parents-first order -/
theorem rev_induction {L : List Nat} (P : Nat → Prop)
    (step : ∀ done i todo, L = done ++ i :: todo → (∀ q ∈ done, P q) → P i) :
    ∀ p ∈ L, P p := by
  have aux : ∀ todo done, L = done ++ todo → (∀ q ∈ done, P q) → ∀ p ∈ L, P p := by
    intro todo
    induction todo with
    | nil =>
      intro done hL hd p hp
      rw [hL, List.append_nil] at hp
      exact hd p hp
    | cons i todo ih =>
      intro done hL hd
      have hi := step done i todo hL hd
      apply ih (done ++ [i]) (by simp [hL])
      intro q hq
      rw [List.mem_append, List.mem_singleton] at hq
      rcases hq with hq | rfl
      · exact hd q hq
      · exact hi
  exact aux L [] rfl (by simp)


/-! ### monotonicity of the rule, the own-entry step -/

theorem edgeDemand_mono (g : DepGraph) (m : Mapper) (pe : Option PolicyEntry) (d : Nat)
    {x y : CSet} (h : CSet.sub x y) : CSet.sub (edgeDemand g m pe d x) (edgeDemand g m pe d y) := by
  unfold edgeDemand
  split
  · exact CSet.sub_refl _
  · exact h

theorem nbVal_mono (g : DepGraph) (pol : Policy) (m : Mapper) (D D' : Nat → CSet) (p : Nat)
    (h : ∀ q ∈ g.topo, p ∈ (g.node q).normalBuildDeps → CSet.sub (D q) (D' q)) :
    CSet.sub (nbVal g pol m D p) (nbVal g pol m D' p) := by
  intro b hb
  rw [nbVal_testBit] at hb ⊢
  obtain ⟨q, h1, h2, h3⟩ := hb
  exact ⟨q, h1, h2, edgeDemand_mono g m _ p (h q h1 h2) b h3⟩

/-- the rule for `p` applied to what has been pushed into `p` -/
def ownVal (g : DepGraph) (pol : Policy) (m : Mapper) (p : Nat) (x : CSet) : CSet :=
  match (g.policyOf pol p).bind (·.criteria) with
  | some c => m.cl c
  | none => (if (g.node p).isRoot then m.cl [1] else 0) ||| x

theorem ruleRhs_eq_ownVal (g : DepGraph) (pol : Policy) (m : Mapper) (D : Nat → CSet) (p : Nat) :
    ruleRhs g pol m D p = ownVal g pol m p (nbVal g pol m D p ||| devVal g pol m p) := by
  rw [ruleRhs_eq, ownVal]
  split <;> simp only [Nat.or_assoc]

theorem ownVal_mono (g : DepGraph) (pol : Policy) (m : Mapper) (p : Nat) {x y : CSet}
    (h : CSet.sub x y) : CSet.sub (ownVal g pol m p x) (ownVal g pol m p y) := by
  unfold ownVal
  split
  · exact CSet.sub_refl _
  · intro b hb
    simp only [Nat.testBit_or, Bool.or_eq_true] at hb ⊢
    rcases hb with hb | hb
    · exact Or.inl hb
    · exact Or.inr (h b hb)

theorem ruleRhs_mono (g : DepGraph) (pol : Policy) (m : Mapper) (D D' : Nat → CSet) (p : Nat)
    (h : ∀ q ∈ g.topo, p ∈ (g.node q).normalBuildDeps → CSet.sub (D q) (D' q)) :
    CSet.sub (ruleRhs g pol m D p) (ruleRhs g pol m D' p) := by
  rw [ruleRhs_eq_ownVal, ruleRhs_eq_ownVal]
  apply ownVal_mono
  intro b hb
  simp only [Nat.testBit_or, Bool.or_eq_true] at hb ⊢
  rcases hb with hb | hb
  · exact Or.inl (nbVal_mono g pol m D D' p h b hb)
  · exact Or.inr hb

theorem ruleRhs_congr (g : DepGraph) (pol : Policy) (m : Mapper) (D D' : Nat → CSet) (p : Nat)
    (h : ∀ q ∈ g.topo, p ∈ (g.node q).normalBuildDeps → D q = D' q) :
    ruleRhs g pol m D p = ruleRhs g pol m D' p := by
  apply CSet.sub_antisymm
  · exact ruleRhs_mono g pol m D D' p (fun q h1 h2 => by rw [h q h1 h2]; exact CSet.sub_refl _)
  · exact ruleRhs_mono g pol m D' D p (fun q h1 h2 => by rw [h q h1 h2]; exact CSet.sub_refl _)

/-- the update of the package's own entry in `topoLoop` -/
def ownStep (g : DepGraph) (pol : Policy) (m : Mapper) (i : Nat) (req : List CSet) :
    Except Panic (List CSet) :=
  match (g.policyOf pol i).bind (·.criteria) with
  | some c =>
    match m.fromList c with
    | .error e => .error e
    | .ok s => .ok (setAt req i (fun _ => s))
  | none =>
    if (g.node i).isRoot then
      match m.fromList [1] with
      | .error e => .error e
      | .ok s => .ok (setAt req i (· ||| s))
    else .ok req

theorem topoLoop_cons (g : DepGraph) (pol : Policy) (m : Mapper) (i : Nat) (is : List Nat)
    (req : List CSet) :
    topoLoop g pol m (i :: is) req =
      match ownStep g pol m i req with
      | .error e => .error e
      | .ok req1 =>
        match pushDeps g m (g.policyOf pol i) (req1.getD i 0) (g.node i).normalBuildDeps req1 with
        | .error e => .error e
        | .ok req2 => topoLoop g pol m is req2 := rfl

theorem ownStep_spec (g : DepGraph) (pol : Policy) (m : Mapper) (i : Nat) (req req1 : List CSet)
    (h : ownStep g pol m i req = .ok req1) :
    req1.length = req.length ∧
    ∀ j, req1.getD j 0 =
      if j = i ∧ j < req.length then ownVal g pol m i (req.getD j 0) else req.getD j 0 := by
  unfold ownStep at h
  unfold ownVal
  split at h
  · rename_i c hc
    split at h
    · cases h
    · rename_i s hs
      cases h
      refine ⟨setAt_length _ _ _, fun j => ?_⟩
      rw [setAt_getD, cl_of_ok hs]
  · rename_i hc
    split at h
    · rename_i hroot
      split at h
      · cases h
      · rename_i s hs
        cases h
        refine ⟨setAt_length _ _ _, fun j => ?_⟩
        rw [setAt_getD]
        simp only [hroot, if_true, cl_of_ok hs, Nat.or_comm]
    · rename_i hroot
      cases h
      refine ⟨rfl, fun j => ?_⟩
      simp only [hroot, Bool.false_eq_true, if_false, Nat.zero_or, ite_self]


/-! ### the `topoLoop` invariant -/

/-- invariant of `topoLoop` after the packages in `done` have been processed -/
structure TopoInv (g : DepGraph) (pol : Policy) (m : Mapper) (done : List Nat) (req : List CSet) :
    Prop where
  len : req.length = g.nodes.length
  fin : ∀ p ∈ done, req.getD p 0 = ruleRhs g pol m (fun i => req.getD i 0) p
  pend : ∀ p, p ∉ done → ∀ b, (req.getD p 0).testBit b = true ↔
    ((devVal g pol m p).testBit b = true ∨
      ∃ q ∈ done, p ∈ (g.node q).normalBuildDeps ∧
        (edgeDemand g m (g.policyOf pol q) p (req.getD q 0)).testBit b = true)

theorem TopoInv.step {g : DepGraph} {pol : Policy} {m : Mapper} {L done todo : List Nat} {i : Nat}
    {req req1 req2 : List CSet} (hr : RevOK g L) (hb : ∀ x ∈ L, x < g.nodes.length)
    (hmem : ∀ x, x ∈ L ↔ x ∈ g.topo) (hL : L = done ++ i :: todo)
    (inv : TopoInv g pol m done req)
    (h1 : ownStep g pol m i req = .ok req1)
    (h2 : pushDeps g m (g.policyOf pol i) (req1.getD i 0) (g.node i).normalBuildDeps req1 = .ok req2) :
    TopoInv g pol m (done ++ [i]) req2 := by
  obtain ⟨l1, v1⟩ := ownStep_spec g pol m i req req1 h1
  obtain ⟨l2, v2⟩ := pushDeps_spec g m _ _ _ _ _ h2
  have hiL : i ∈ L := by rw [hL]; simp
  have hi : i < req.length := by rw [inv.len]; exact hb i hiL
  have hnd : i ∉ done := hr.not_done hL
  have hself : i ∉ (g.node i).normalBuildDeps := fun h => (hr.dep_fresh hL h).2 rfl
  -- value at `i`
  have hB : req2.getD i 0 = ownVal g pol m i (req.getD i 0) := by
    rw [v2 i, if_neg (fun h => hself h.1), v1 i, if_pos ⟨rfl, hi⟩]
  have h1i : req1.getD i 0 = req2.getD i 0 := by
    rw [hB, v1 i, if_pos ⟨rfl, hi⟩]
  -- values elsewhere
  have hP : ∀ p, p ≠ i → req2.getD p 0 =
      if p ∈ (g.node i).normalBuildDeps then
        req.getD p 0 ||| edgeDemand g m (g.policyOf pol i) p (req2.getD i 0)
      else req.getD p 0 := by
    intro p hpi
    have hv1p : req1.getD p 0 = req.getD p 0 := by rw [v1 p, if_neg (fun h => hpi h.1)]
    rw [v2 p, h1i, l1, hv1p]
    by_cases hp : p ∈ (g.node i).normalBuildDeps
    · have : p < req.length := by
        rw [inv.len]
        apply hb
        rw [hL]
        exact List.mem_append_right _ (List.mem_cons_of_mem _ (hr.order _ _ _ hL p hp))
      simp only [hp, this, and_self, if_true]
    · simp only [hp, false_and, if_false]
  have hC : ∀ q ∈ done, req2.getD q 0 = req.getD q 0 := by
    intro q hq
    have hqi : q ≠ i := fun h => hnd (h ▸ hq)
    rw [hP q hqi, if_neg (fun h => (hr.dep_fresh hL h).1 hq)]
  refine ⟨by rw [l2, l1, inv.len], ?_, ?_⟩
  · intro p hp
    rw [List.mem_append, List.mem_singleton] at hp
    rcases hp with hp | rfl
    · rw [hC p hp, inv.fin p hp]
      apply ruleRhs_congr
      intro q hq hpq
      have hqd : q ∈ done := hr.parent_done (rest := i :: todo) hL hp ((hmem q).2 hq) hpq
      exact (hC q hqd).symm
    · rw [hB, ruleRhs_eq_ownVal]
      congr 1
      apply Nat.eq_of_testBit_eq
      intro b
      rw [Bool.eq_iff_iff, inv.pend p hnd b, Nat.testBit_or, Bool.or_eq_true, nbVal_testBit, or_comm]
      apply or_congr_left
      constructor
      · rintro ⟨q, hq, hpq, hE⟩
        refine ⟨q, (hmem q).1 (by rw [hL]; exact List.mem_append_left _ hq), hpq, ?_⟩
        show (edgeDemand g m (g.policyOf pol q) p (req2.getD q 0)).testBit b = true
        rw [hC q hq]; exact hE
      · rintro ⟨q, hq, hpq, hE⟩
        have hqd : q ∈ done := hr.parent_done' hL ((hmem q).2 hq) hpq
        refine ⟨q, hqd, hpq, ?_⟩
        have hE' : (edgeDemand g m (g.policyOf pol q) p (req2.getD q 0)).testBit b = true := hE
        rw [hC q hqd] at hE'; exact hE'
  · intro p hp b
    rw [List.mem_append, List.mem_singleton, not_or] at hp
    obtain ⟨hpd, hpi⟩ := hp
    rw [hP p hpi]
    have hex : ((∃ q ∈ done ++ [i], p ∈ (g.node q).normalBuildDeps ∧
          (edgeDemand g m (g.policyOf pol q) p (req2.getD q 0)).testBit b = true) ↔
        ((∃ q ∈ done, p ∈ (g.node q).normalBuildDeps ∧
          (edgeDemand g m (g.policyOf pol q) p (req.getD q 0)).testBit b = true) ∨
         (p ∈ (g.node i).normalBuildDeps ∧
          (edgeDemand g m (g.policyOf pol i) p (req2.getD i 0)).testBit b = true))) := by
      constructor
      · rintro ⟨q, hq, hpq, hE⟩
        rw [List.mem_append, List.mem_singleton] at hq
        rcases hq with hq | rfl
        · rw [hC q hq] at hE
          exact Or.inl ⟨q, hq, hpq, hE⟩
        · exact Or.inr ⟨hpq, hE⟩
      · rintro (⟨q, hq, hpq, hE⟩ | ⟨hpq, hE⟩)
        · refine ⟨q, List.mem_append_left _ hq, hpq, ?_⟩
          rw [hC q hq]; exact hE
        · exact ⟨i, List.mem_append_right _ (List.mem_singleton_self i), hpq, hE⟩
    rw [hex]
    by_cases hpn : p ∈ (g.node i).normalBuildDeps
    · rw [if_pos hpn, Nat.testBit_or, Bool.or_eq_true, inv.pend p hpd b]
      simp only [hpn, true_and, or_assoc]
    · rw [if_neg hpn, inv.pend p hpd b]
      simp only [hpn, false_and, or_false]


theorem topoLoop_inv {g : DepGraph} {pol : Policy} {m : Mapper} {L : List Nat}
    (hr : RevOK g L) (hb : ∀ x ∈ L, x < g.nodes.length) (hmem : ∀ x, x ∈ L ↔ x ∈ g.topo)
    (todo : List Nat) :
    ∀ (done : List Nat) (req req' : List CSet), L = done ++ todo → TopoInv g pol m done req →
      topoLoop g pol m todo req = .ok req' → TopoInv g pol m L req' := by
  induction todo with
  | nil =>
    intro done req req' hL inv h
    simp only [topoLoop] at h
    cases h
    rw [hL, List.append_nil]
    exact inv
  | cons i todo ih =>
    intro done req req' hL inv h
    rw [topoLoop_cons] at h
    split at h
    · cases h
    · rename_i req1 h1
      split at h
      · cases h
      · rename_i req2 h2
        exact ih (done ++ [i]) req2 req' (by simp [hL]) (inv.step hr hb hmem hL h1 h2) h

theorem devVal_unlisted {g : DepGraph} (hv : ValidTopo g) (pol : Policy) (m : Mapper) (p b : Nat)
    (h : (devVal g pol m p).testBit b = true) : p ∈ g.topo := by
  rw [devVal_testBit] at h
  obtain ⟨q, h1, h2, _⟩ := h
  exact hv.dev q h1 p h2

theorem TopoInv.init {g : DepGraph} (hv : ValidTopo g) {pol : Policy} {m : Mapper} {req : List CSet}
    (h : devLoop g pol m g.nodes (List.replicate g.nodes.length 0) = .ok req) :
    TopoInv g pol m [] req := by
  obtain ⟨hl, hv0⟩ := devLoop_init g pol m req h
  refine ⟨hl, by simp, fun p _ b => ?_⟩
  rw [hv0 p b]
  constructor
  · rintro ⟨_, h⟩; exact Or.inl h
  · rintro (h | ⟨q, hq, _⟩)
    · exact ⟨hv.bound p (devVal_unlisted hv pol m p b h), h⟩
    · simp at hq

theorem resolve_inv {g : DepGraph} (hv : ValidTopo g) {pol : Policy} {m : Mapper} {req : List CSet}
    (h : resolveRequirements g pol m = .ok req) : TopoInv g pol m g.topo.reverse req := by
  unfold resolveRequirements at h
  split at h
  · cases h
  · rename_i req0 h0
    exact topoLoop_inv hv.revOK (fun x hx => hv.bound x (List.mem_reverse.1 hx))
      (fun x => List.mem_reverse) g.topo.reverse [] req0 req (by simp) (TopoInv.init hv h0) h


theorem topoLoop_length (g : DepGraph) (pol : Policy) (m : Mapper) (is : List Nat)
    (req req' : List CSet) (h : topoLoop g pol m is req = .ok req') : req'.length = req.length := by
  induction is generalizing req with
  | nil =>
    simp only [topoLoop] at h
    cases h
    rfl
  | cons i is ih =>
    rw [topoLoop_cons] at h
    split at h
    · cases h
    · rename_i req1 h1
      split at h
      · cases h
      · rename_i req2 h2
        rw [ih req2 h, (pushDeps_spec g m _ _ _ _ _ h2).1, (ownStep_spec g pol m i req req1 h1).1]

/-- in a valid order, the dependencies of a listed package are listed -/
theorem ValidTopo.dep_listed {g : DepGraph} (hv : ValidTopo g) {q d : Nat} (hq : q ∈ g.topo)
    (hd : d ∈ (g.node q).normalBuildDeps) : d ∈ g.topo := by
  obtain ⟨pre, post, ht⟩ := List.append_of_mem hq
  have := hv.order pre q post ht d hd
  rw [ht]
  exact List.mem_append_left _ this

end Vet
