/- Assembling "updates preserve success": every third-party package keeps a conflict-free graph and
a certifying chain for every required criterion, and `resolve` on the updated store does not panic. -/
import Vet.Lemmas.PreserveEdge
import Vet.Props.Resolve
namespace Vet

/-! ### unfolding `resolve` -/

theorem resolve_parts {w : World} {r : Report} (h : resolve w = .ok r) :
    DepGraph.new w.md w.store.policy = .ok r.graph ∧ Mapper.new w.table = .ok r.mapper ∧
    resolveRequirements r.graph w.store.policy r.mapper = .ok r.requirements := by
  unfold resolve at h
  split at h
  · cases h
  · rename_i g hg
    split at h
    · cases h
    · rename_i m hm
      split at h
      · cases h
      · rename_i req hreq
        split at h
        · cases h
        · simp only [Except.ok.injEq] at h
          subst h
          exact ⟨hg, hm, hreq⟩

theorem resolveLoop_ok_of {s : Store} {m : Mapper} (l : List (Nat × PkgNode × CSet)) (acc : Acc)
    (h : ∀ x ∈ l, x.2.1.thirdParty = true → ∃ g, build s m x.2.1.name = .ok (.graph g)) :
    ∃ acc', resolveLoop s m l acc = .ok acc' := by
  induction l generalizing acc with
  | nil => exact ⟨acc, rfl⟩
  | cons x rest ih =>
    obtain ⟨idx, p, req⟩ := x
    have hrest := fun y hy => h y (List.mem_cons_of_mem _ hy)
    unfold resolveLoop
    cases htp : p.thirdParty with
    | false =>
      simp only [Bool.not_false, if_true]
      exact ih _ hrest
    | true =>
      obtain ⟨g, hg⟩ := h (idx, p, req) List.mem_cons_self htp
      simp only [Bool.not_true, Bool.false_eq_true, if_false, hg, firstPanic_searchAll]
      exact ih _ hrest

theorem resolve_applyLocked_ok {w : World} {u : Updates} {dg : DepGraph} {m : Mapper} {reqs : List CSet}
    (hdg : DepGraph.new w.md w.store.policy = .ok dg) (hm : Mapper.new w.table = .ok m)
    (hreq : resolveRequirements dg w.store.policy m = .ok reqs)
    (hb : ∀ x ∈ (List.range dg.nodes.length).zip (dg.nodes.zip reqs), x.2.1.thirdParty = true →
      ∃ g, build (applyLocked w.store u) m x.2.1.name = .ok (.graph g)) :
    ∃ r', resolve (w.applyLocked u) = .ok r' ∧ r'.graph = dg ∧ r'.mapper = m ∧ r'.requirements = reqs := by
  obtain ⟨acc, hacc⟩ := resolveLoop_ok_of _ {} hb
  have h1 : DepGraph.new (w.applyLocked u).md (w.applyLocked u).store.policy = .ok dg := hdg
  have h2 : Mapper.new (w.applyLocked u).table = .ok m := hm
  have h3 : resolveRequirements dg (w.applyLocked u).store.policy m = .ok reqs := hreq
  have h4 : resolveLoop (w.applyLocked u).store m ((List.range dg.nodes.length).zip (dg.nodes.zip reqs)) {} =
      .ok acc := hacc
  unfold resolve
  simp only [h1, h2, h3, h4]
  exact ⟨_, rfl, rfl, rfl, rfl⟩

/-! ### mapping a chain edge by edge -/

theorem CertPath.map {s s' : Store} {m : Mapper} {name c : Nat} {a b : Option Nat} {p : List Origin}
    (cp : CertPath s m name c a p b)
    (h : ∀ a' o b', o ∈ p → CertEdge s m name c a' o b' → ∃ o', CertEdge s' m name c a' o' b') :
    ∃ p', CertPath s' m name c a p' b := by
  induction cp with
  | nil a => exact ⟨[], .nil a⟩
  | cons he _ ih =>
    obtain ⟨o', he'⟩ := h _ _ _ List.mem_cons_self he
    obtain ⟨p', hp'⟩ := ih (fun a' o b' ho => h a' o b' (List.mem_cons_of_mem _ ho))
    exact ⟨o' :: p', .cons he' hp'⟩

/-! ### what a successful `getStoreUpdates` provides -/

theorem pres_zipIdx_unique {α : Type} {l : List α} {x y : α} {i : Nat} (hx : (x, i) ∈ l.zipIdx)
    (hy : (y, i) ∈ l.zipIdx) : x = y := by
  have h1 := List.mk_mem_zipIdx_iff_getElem?.1 hx
  have h2 := List.mk_mem_zipIdx_iff_getElem?.1 hy
  rw [h1] at h2
  exact Option.some.inj h2

theorem update_facts {w : World} {modeOf : Nat → UpdateMode} {u : Updates}
    (hnd : (w.store.exemptions.map (·.1)).Nodup)
    (hmode : ∀ n, (modeOf n).search ≠ .regenerateExemptions)
    (hu : getStoreUpdates w modeOf = .ok u) :
    ∃ dg m reqs required ex0,
      DepGraph.new w.md w.store.policy = .ok dg ∧ Mapper.new w.table = .ok m ∧
      resolveRequirements dg w.store.policy m = .ok reqs ∧
      ReqFacts dg m reqs w.store modeOf required ∧
      u = updatesOf w.store modeOf (fun n => assoc? n required) ex0 ∧
      (∀ name, ExOK m w.store modeOf (fun n => assoc? n required) ex0 name) ∧
      (∀ name, AllExSound m w.store (fun n => assoc? n required) name) := by
  obtain ⟨dg, m, reqs, required, ex0, hdg, hm, hreq, hall, hex0, hueq⟩ := getStoreUpdates_shape hu
  have facts := allRequired_facts hall
  have hnofresh : withFresh m required ex0 = ex0 := by
    apply withFresh_eq
    intro x hx r hr v
    have := facts.mem x hx
    rw [hr] at this
    exact (requiredEntries_sound (hmode x.1) this).2 v
  rw [hnofresh] at hueq
  refine ⟨dg, m, reqs, required, ex0, hdg, hm, hreq, facts, hueq, ?_, ?_⟩
  · intro name
    exact exemptionTable_getL_nodup hex0 hnd name
  · intro name x idx original hx horig r hr su hg c hc
    replace hr : (assoc? name required).getD (some []) = some r := hr
    cases hl : assoc? name required with
    | none =>
      rw [hl] at hr
      simp only [Option.getD_none, Option.some.injEq] at hr
      subst hr
      cases hg
    | some ro =>
      rw [hl] at hr
      simp only [Option.getD_some] at hr
      subst hr
      obtain ⟨x', cs, hx', hcs, hbit⟩ :=
        (requiredEntries_sound (hmode name) (facts.ok name _ hl)).1 idx su c hg hc
      cases pres_zipIdx_unique hx hx'
      rw [horig] at hcs
      cases hcs
      exact hbit

/-- no new violation conflict, for any crate -/
theorem no_new_conflict {w : World} {modeOf : Nat → UpdateMode} {u : Updates} {m : Mapper}
    (hnd : (w.store.exemptions.map (·.1)).Nodup)
    (hm : Mapper.new w.table = .ok m)
    (hmode : ∀ n, (modeOf n).search ≠ .regenerateExemptions)
    (hu : getStoreUpdates w modeOf = .ok u) (name : Nat)
    (hb : ∃ g, build w.store m name = .ok (.graph g)) :
    ∃ g', build (applyLocked w.store u) m name = .ok (.graph g') := by
  obtain ⟨dg, m', reqs, required, ex0, _, hm', _, _, rfl, hex, hsound⟩ := update_facts hnd hmode hu
  rw [hm] at hm'
  cases hm'
  exact build_graph_of_sub (storeSub_applied hm _ _ _ _ name hb (hex name) (hsound name)) hb


/-! ### one third-party package -/

theorem pres_mem_zip_iff {α β : Type} {l : List α} {l' : List β} {x : α} {y : β} :
    (x, y) ∈ l.zip l' ↔ ∃ i : Nat, l[i]? = some x ∧ l'[i]? = some y := by
  rw [List.mem_iff_getElem?]
  constructor
  · rintro ⟨i, hi⟩
    exact ⟨i, List.getElem?_zip_eq_some.1 hi⟩
  · rintro ⟨i, hi⟩
    exact ⟨i, List.getElem?_zip_eq_some.2 hi⟩

theorem mem_pkgsOf {dg : DepGraph} {reqs : List CSet} {name ver : Nat} {req : CSet} :
    (ver, req) ∈ pkgsOf dg reqs name ↔
      ∃ (i : Nat) (p : PkgNode), dg.nodes[i]? = some p ∧ reqs[i]? = some req ∧ p.name = name ∧ p.thirdParty = true ∧
        p.ver = ver := by
  unfold pkgsOf
  simp only [List.mem_map, List.mem_filter, Bool.and_eq_true, beq_iff_eq, Prod.mk.injEq, Prod.exists]
  constructor
  · rintro ⟨p, q, ⟨hz, hn, htp⟩, hv, rfl⟩
    obtain ⟨i, h1, h2⟩ := pres_mem_zip_iff.1 hz
    exact ⟨i, p, h1, h2, hn, htp, hv⟩
  · rintro ⟨i, p, h1, h2, hn, htp, hv⟩
    exact ⟨p, req, ⟨pres_mem_zip_iff.2 ⟨i, h1, h2⟩, hn, htp⟩, hv, rfl⟩

/-- after the update a third-party package still has a conflict-free graph and a certifying chain
for every required criterion -/
theorem node_preserved {w : World} {modeOf : Nat → UpdateMode} {u : Updates}
    (hnd : (w.store.exemptions.map (·.1)).Nodup)
    (hmode : ∀ n, (modeOf n).search ≠ .regenerateExemptions)
    (hu : getStoreUpdates w modeOf = .ok u)
    {r : Report} (hr : resolve w = .ok r) {a b f : List Nat} (hs : r.conclusion = .success a b f)
    {i : Nat} {p : PkgNode} (hp : r.graph.nodes[i]? = some p) (htp : p.thirdParty = true) :
    (∃ g', build (applyLocked w.store u) r.mapper p.name = .ok (.graph g')) ∧
    ∀ c, r.required i c → CertChain (applyLocked w.store u) r.mapper p.name c p.ver := by
  obtain ⟨dg, m, reqs, required, ex0, hdg, hm, hreq, facts, rfl, hex, hsound⟩ := update_facts hnd hmode hu
  obtain ⟨hdg', hm', hreq'⟩ := resolve_parts hr
  rw [hdg'] at hdg
  cases hdg
  rw [hm'] at hm
  cases hm
  rw [hreq'] at hreq
  cases hreq
  -- the old store: a graph for this crate
  obtain ⟨acc, v⟩ := resolve_view hr
  have hs' := hs
  rw [v.conclusion] at hs'
  obtain ⟨hv, -, -, -, -⟩ := concl_success hs'
  obtain ⟨g, hb, -⟩ := v.graph_of_no_violation hv (v.item_of_node hp) htp
  replace hb : build w.store r.mapper p.name = .ok (.graph g) := hb
  -- the required entries of this crate
  have hname : p.name ∈ r.graph.nodes.map (·.name) :=
    List.mem_map.2 ⟨p, List.mem_of_getElem? hp, rfl⟩
  obtain ⟨ro, hl⟩ := facts.names _ hname
  have hre := facts.ok _ _ hl
  have hreqi : r.requirements[i]? = some (r.requirements.getD i 0) := by
    obtain ⟨hlt, _⟩ := List.getElem?_eq_some_iff.1 hp
    have hlt' : i < r.requirements.length := by rw [v.hlen]; exact hlt
    simp [List.getD, hlt']
  have hpk : (p.ver, r.requirements.getD i 0) ∈ pkgsOf r.graph r.requirements p.name :=
    mem_pkgsOf.2 ⟨i, p, hp, hreqi, rfl, htp, rfl⟩
  have hrp : requiredForPkgs g r.mapper (modeOf p.name).search (pkgsOf r.graph r.requirements p.name) [] =
      .ok ro := by
    rcases requiredEntries_cases hre with ⟨hnil, _⟩ | ⟨_, ⟨cs, hcs, _⟩ | ⟨g', hg', hrp⟩⟩
    · rw [hnil] at hpk
      cases hpk
    · rw [hb] at hcs
      cases hcs
    · rw [hb] at hg'
      cases hg'
      exact hrp
  obtain ⟨rr, rfl⟩ := requiredForPkgs_some _ _ _ hrp (by
    intro ver req hmem c hc
    obtain ⟨i', p', hp', hq', hn', htp', hv'⟩ := mem_pkgsOf.1 hmem
    obtain ⟨⟨hcn, hcb⟩, _⟩ := (mem_minimal ..).1 hc
    have hch := C01_sound w r hr a b f hs i' p' hp' htp' c
      ⟨hcn, by simpa [List.getD, hq'] using hcb⟩
    rw [hn', hv'] at hch
    exact search_ok_of_chain hb (hmode _) hch)
  have hreqOf : reqOfLookup (fun n => assoc? n required) p.name = some rr := by
    show (assoc? p.name required).getD (some []) = some rr
    rw [hl]
    rfl
  constructor
  · exact build_graph_of_sub
      (storeSub_applied hm' _ _ _ _ p.name ⟨g, hb⟩ (hex p.name) (hsound p.name)) ⟨g, hb⟩
  · intro c hc
    obtain ⟨c', hc'min, himp⟩ := minimal_implies hm' (r.requirements.getD i 0) hc.1 hc.2
    obtain ⟨path, hpath, hent⟩ :=
      (requiredForPkgs_spec (S := fun _ _ => True) _ [] rr hrp (ReqProv.nil _)
        (fun _ _ _ _ _ _ _ _ _ _ _ => trivial)).2.2 p.ver _ hpk c' hc'min
    have cp := search_ok_certPath_mode hb (hmode p.name) hpath
    obtain ⟨p', cp'⟩ := cp.map (s' := applyLocked w.store
        (updatesOf w.store modeOf (fun n => assoc? n required) ex0))
      (fun a' o b' ho he => edge_kept hm' w.store modeOf _ ex0 p.name hreqOf (hex p.name)
        (hsound p.name) he (hent o (List.mem_reverse.1 ho)))
    exact ⟨p', cp'.implies hm' himp hc.1⟩

/-- C10 with unique exemption keys -/
theorem update_preserves_success {w : World} {modeOf : Nat → UpdateMode} {u : Updates}
    (hnd : (w.store.exemptions.map (·.1)).Nodup)
    (hmode : ∀ n, (modeOf n).search ≠ .regenerateExemptions)
    (hu : getStoreUpdates w modeOf = .ok u)
    {r : Report} (hr : resolve w = .ok r) {a b f : List Nat} (hs : r.conclusion = .success a b f) :
    ∃ r' a' b' f', resolve (w.applyLocked u) = .ok r' ∧ r'.conclusion = .success a' b' f' := by
  obtain ⟨hdg, hm, hreq⟩ := resolve_parts hr
  obtain ⟨r', hr', hg', hm', hq'⟩ := resolve_applyLocked_ok (u := u) hdg hm hreq (by
    intro x hx htp
    obtain ⟨i, p, q⟩ := x
    obtain ⟨hp, _⟩ := mem_items.1 hx
    exact (node_preserved hnd hmode hu hr hs hp htp).1)
  obtain ⟨a', b', f', hc'⟩ := C02_no_false_failure (w.applyLocked u) r' hr'
    (by
      intro i p hp htp
      rw [hg'] at hp
      rw [hm']
      exact (node_preserved hnd hmode hu hr hs hp htp).1)
    (by
      intro i p hp htp c hc
      rw [hg'] at hp
      unfold Report.required at hc
      rw [hm', hq'] at hc
      rw [hm']
      exact (node_preserved hnd hmode hu hr hs hp htp).2 c hc)
  exact ⟨r', a', b', f', hr', hc'⟩

end Vet
