/- The import step on an accepted store: no panic, and only defined local criteria come out. -/
import Vet.Lemmas.CheckTable
import Vet.Lemmas.Imports
import Vet.Lemmas.ImportsMap
import Vet.Lemmas.ImportsMerge
import Vet.Lemmas.ValidateNoPanic
namespace Vet

/-! ### tables whose criteria are all below `n` -/

def TblOK {α : Type} (n : Nat) (crit : α → List Nat) (tbl : List (Nat × List α)) : Prop :=
  ∀ e ∈ tbl, ∀ a ∈ e.2, ∀ c ∈ crit a, c < n

theorem insertKey_tblOK {α : Type} {n : Nat} {crit : α → List Nat} (k : Nat) (v : List α)
    (tbl : List (Nat × List α)) (hv : ∀ a ∈ v, ∀ c ∈ crit a, c < n) (ht : TblOK n crit tbl) :
    TblOK n crit (insertKey k v tbl) := by
  induction tbl with
  | nil =>
    intro e he
    simp only [insertKey, List.mem_singleton] at he
    subst he
    exact hv
  | cons e' rest ih =>
    obtain ⟨k', v'⟩ := e'
    have h0 : ∀ a ∈ v', ∀ c ∈ crit a, c < n := ht (k', v') (List.mem_cons_self ..)
    have hr : TblOK n crit rest := fun e he => ht e (List.mem_cons_of_mem _ he)
    simp only [insertKey]
    split
    · intro e he
      rcases List.mem_cons.1 he with rfl | he
      · exact hv
      · exact ht e he
    · split
      · intro e he
        rcases List.mem_cons.1 he with rfl | he
        · intro a ha
          rcases List.mem_append.1 ha with ha | ha
          · exact h0 a ha
          · exact hv a ha
        · exact hr e he
      · intro e he
        rcases List.mem_cons.1 he with rfl | he
        · exact h0
        · exact ih hr e he

theorem mergeTables_tblOK {α : Type} {n : Nat} {crit : α → List Nat} (a b : List (Nat × List α))
    (ha : TblOK n crit a) (hb : TblOK n crit b) : TblOK n crit (mergeTables a b) := by
  unfold mergeTables
  induction b generalizing a with
  | nil => exact ha
  | cons e rest ih =>
    obtain ⟨k, v⟩ := e
    simp only [List.foldl_cons]
    exact ih _ (insertKey_tblOK k v a (hb (k, v) (List.mem_cons_self ..)) ha)
      (fun e he => hb e (List.mem_cons_of_mem _ he))

/-! ### what `importSource` yields -/

theorem makeLocal_lt {lm fm : Mapper} {mapping : List CSet} {cr c : List Nat}
    (h : makeLocal lm fm mapping cr = .ok c) : ∀ x ∈ c, x < lm.n := by
  unfold makeLocal at h
  split at h
  · cases h
  · simp only [Except.ok.injEq] at h
    subst h
    intro x hx
    exact ((mem_minimal lm _ x).1 hx).1.1

theorem importSource_refsValid {lm : Mapper} {exclude : List Nat} {p : PeerFile} {f : AFile}
    (h : importSource lm exclude p = .ok f) : f.RefsValid lm.n := by
  obtain ⟨fm, mapping, _, _, hA, hW⟩ := importSource_inv lm exclude p f h
  constructor
  · rintro ⟨k, l'⟩ he a' ha'
    obtain ⟨l, _, hloc⟩ := mapTable_mem _ _ _ hA k l' he
    obtain ⟨a, c, _, hc, rfl⟩ := localizeAudits_mem lm fm mapping _ _ hloc a' ha'
    exact makeLocal_lt hc
  · rintro ⟨k, l'⟩ he a' ha'
    obtain ⟨l, _, hloc⟩ := mapTable_mem _ _ _ hW k l' he
    obtain ⟨a, c, _, hc, rfl⟩ := localizeWildcards_mem lm fm mapping _ _ hloc a' ha'
    exact makeLocal_lt hc

theorem go_some_refsValid {lm : Mapper} {cfg : ImportCfg} :
    ∀ (ps : List PeerFile) (fs : List AFile), importOne.go lm cfg ps = .ok (some fs) →
      ∀ f ∈ fs, f.RefsValid lm.n := by
  intro ps
  induction ps with
  | nil =>
    intro fs h f hf
    simp only [importOne.go, Except.ok.injEq, Option.some.injEq] at h
    subst h
    cases hf
  | cons p ps ih =>
    intro fs h f hf
    simp only [importOne.go] at h
    split at h
    · cases h
    · split at h
      · cases h
      · next f0 hf0 =>
        split at h
        · cases h
        · cases h
        · next fs' hgo =>
          simp only [Except.ok.injEq, Option.some.injEq] at h
          subst h
          rcases List.mem_cons.1 hf with rfl | hf
          · exact importSource_refsValid hf0
          · exact ih fs' hgo f hf

theorem foldl_merge_refsValid {n : Nat} (fs : List AFile) (acc : AFile) (hacc : acc.RefsValid n)
    (hfs : ∀ f ∈ fs, f.RefsValid n) :
    (fs.foldl (fun acc f =>
      (⟨mergeTables acc.audits (f.audits.map (fun (n, l) => (n, l.filter (·.importable)))),
       mergeTables acc.wildcards f.wildcards⟩ : AFile)) acc).RefsValid n := by
  induction fs generalizing acc with
  | nil => exact hacc
  | cons f rest ih =>
    simp only [List.foldl_cons]
    apply ih _ _ (fun g hg => hfs g (List.mem_cons_of_mem _ hg))
    have hf := hfs f (List.mem_cons_self ..)
    constructor
    · apply mergeTables_tblOK (crit := fun a : Audit => a.criteria) _ _ hacc.1
      intro e he a ha
      simp only [List.mem_map] at he
      obtain ⟨⟨k, l⟩, hkl, rfl⟩ := he
      exact hf.1 (k, l) hkl a (List.mem_filter.1 ha).1
    · exact mergeTables_tblOK (crit := fun a : Wildcard => a.criteria) _ _ hacc.2 hf.2

theorem importOne_refsValid {lm : Mapper} {cfg : ImportCfg} {f : AFile}
    (h : importOne lm cfg = .ok (.ok f)) : f.RefsValid lm.n := by
  unfold importOne at h
  split at h
  · cases h
  · cases h
  · next f' hgo =>
    simp only [Except.ok.injEq, ImportResult.ok.injEq] at h
    subst h
    exact go_some_refsValid _ _ hgo f' (List.mem_cons_self ..)
  · next fs _ hgo =>
    split at h
    · cases h
    · simp only [Except.ok.injEq, ImportResult.ok.injEq] at h
      subst h
      refine foldl_merge_refsValid fs ⟨[], []⟩ ⟨?_, ?_⟩ (go_some_refsValid _ _ hgo)
      · intro e he; cases he
      · intro e he; cases he

/-! ### freshness marking keeps criteria -/

theorem markFirst_mem {α : Type} (same isFresh : α → Bool) (clear : α → α) (P : α → Prop)
    (hP : ∀ x, P x → P (clear x)) (l : List α) (h : ∀ x ∈ l, P x) :
    ∀ x ∈ markFirst same isFresh clear l, P x := by
  induction l with
  | nil => intro x hx; cases hx
  | cons a rest ih =>
    simp only [markFirst]
    split
    · intro x hx
      rcases List.mem_cons.1 hx with rfl | hx
      · exact hP _ (h a (List.mem_cons_self ..))
      · exact h x (List.mem_cons_of_mem _ hx)
    · intro x hx
      rcases List.mem_cons.1 hx with rfl | hx
      · exact h _ (List.mem_cons_self ..)
      · exact ih (fun y hy => h y (List.mem_cons_of_mem _ hy)) x hx

theorem foldl_markFirst_mem {α : Type} (same : α → α → Bool) (isFresh : α → Bool) (clear : α → α)
    (P : α → Prop) (hP : ∀ x, P x → P (clear x)) (es : List α) (l : List α) (h : ∀ x ∈ l, P x) :
    ∀ x ∈ es.foldl (fun l e => markFirst (fun x => same x e) isFresh clear l) l, P x := by
  induction es generalizing l with
  | nil => exact h
  | cons e es ih =>
    simp only [List.foldl_cons]
    exact ih _ (markFirst_mem _ _ _ P hP l h)

theorem markTable_tblOK {α : Type} {n : Nat} {crit : α → List Nat} (same : α → α → Bool)
    (isFresh : α → Bool) (clear : α → α) (hc : ∀ x, crit (clear x) = crit x)
    (live lock : List (Nat × List α)) (h : TblOK n crit live) :
    TblOK n crit (markTable same isFresh clear live lock) := by
  intro e he
  simp only [markTable, List.mem_map] at he
  obtain ⟨⟨k, l⟩, hkl, rfl⟩ := he
  exact foldl_markFirst_mem same isFresh clear (fun a => ∀ c ∈ crit a, c < n)
    (fun x hx => by rw [hc]; exact hx) _ l (h (k, l) hkl)

theorem updateFreshness_refsValid {n : Nat} {live lock : AFile} (h : live.RefsValid n) :
    (updateFreshness live lock).RefsValid n := by
  unfold updateFreshness
  exact ⟨markTable_tblOK (crit := fun a : Audit => a.criteria) sameAudit (·.fresh)
      (fun a => { a with fresh := false }) (fun _ => rfl) live.audits lock.audits h.1,
    markTable_tblOK (crit := fun a : Wildcard => a.criteria) sameWildcard (·.fresh)
      (fun a => { a with fresh := false }) (fun _ => rfl) live.wildcards lock.wildcards h.2⟩

/-! ### the import step does not panic -/

theorem sanitizeTable_n (t : Table) : (sanitizeTable t).n = t.n := by
  simp [sanitizeTable, Table.n]

theorem sanitizeTable_wf (t : Table) : (sanitizeTable t).WF := by
  intro c hc i hi
  rw [sanitizeTable_n]
  simp only [sanitizeTable, List.mem_map] at hc
  obtain ⟨c0, _, rfl⟩ := hc
  simpa using (List.mem_filter.1 hi).2

def foreignHere (lm : Mapper) (cmap : List (Nat × List Nat)) (f : Nat) : Except Panic CSet :=
  match assoc? f cmap with
  | some l => lm.fromList l
  | none => if f = 1 then lm.fromList [1] else if f = 0 then lm.fromList [0] else .ok 0

theorem foreignHere_ok (lm : Mapper) (cmap : List (Nat × List Nat)) (h2 : 2 ≤ lm.n)
    (hc : ∀ e ∈ cmap, ∀ c ∈ e.2, c < lm.n) (f : Nat) : ∃ s, foreignHere lm cmap f = .ok s := by
  unfold foreignHere
  split
  · next l hl => exact fromList_ok_of lm l (hc (f, l) (assoc?_some_mem f cmap l hl))
  · split
    · exact fromList_ok_of lm [1] (by intro i hi; simp at hi; omega)
    · split
      · exact fromList_ok_of lm [0] (by intro i hi; simp at hi; omega)
      · exact ⟨0, rfl⟩

theorem foreignToLocal_cons (lm : Mapper) (cmap : List (Nat × List Nat)) (f : Nat) (rest : List Nat) :
    foreignToLocal lm cmap (f :: rest) =
      match foreignHere lm cmap f with
      | .error e => .error e
      | .ok s =>
        match foreignToLocal lm cmap rest with
        | .error e => .error e
        | .ok ss => .ok (s :: ss) := rfl

theorem foreignToLocal_ok (lm : Mapper) (cmap : List (Nat × List Nat)) (h2 : 2 ≤ lm.n)
    (hc : ∀ e ∈ cmap, ∀ c ∈ e.2, c < lm.n) (l : List Nat) : ∃ r, foreignToLocal lm cmap l = .ok r := by
  induction l with
  | nil => exact ⟨[], rfl⟩
  | cons f rest ih =>
    obtain ⟨s, hs⟩ := foreignHere_ok lm cmap h2 hc f
    obtain ⟨ss, hss⟩ := ih
    exact ⟨s :: ss, by rw [foreignToLocal_cons, hs, hss]⟩

theorem makeLocal_ok (lm fm : Mapper) (mapping : List CSet) (cr : List Nat) (h : ∀ c ∈ cr, c < fm.n) :
    ∃ r, makeLocal lm fm mapping cr = .ok r := by
  obtain ⟨s, hs⟩ := fromList_ok_of fm cr h
  simp only [makeLocal, hs]
  exact ⟨_, rfl⟩

theorem localizeAudits_ok (lm fm : Mapper) (mapping : List CSet) (l : List Audit)
    (h : ∀ a ∈ l, ∀ c ∈ a.criteria, c < fm.n) : ∃ r, localizeAudits lm fm mapping l = .ok r := by
  induction l with
  | nil => exact ⟨[], rfl⟩
  | cons a rest ih =>
    obtain ⟨c, hc⟩ := makeLocal_ok lm fm mapping a.criteria (h a (List.mem_cons_self ..))
    obtain ⟨r, hr⟩ := ih (fun b hb => h b (List.mem_cons_of_mem _ hb))
    simp only [localizeAudits, hc, hr]
    exact ⟨_, rfl⟩

theorem localizeWildcards_ok (lm fm : Mapper) (mapping : List CSet) (l : List Wildcard)
    (h : ∀ a ∈ l, ∀ c ∈ a.criteria, c < fm.n) : ∃ r, localizeWildcards lm fm mapping l = .ok r := by
  induction l with
  | nil => exact ⟨[], rfl⟩
  | cons a rest ih =>
    obtain ⟨c, hc⟩ := makeLocal_ok lm fm mapping a.criteria (h a (List.mem_cons_self ..))
    obtain ⟨r, hr⟩ := ih (fun b hb => h b (List.mem_cons_of_mem _ hb))
    simp only [localizeWildcards, hc, hr]
    exact ⟨_, rfl⟩

theorem mapTable_ok {α β : Type} (F : List α → Except Panic (List β)) (t : List (Nat × List α))
    (h : ∀ e ∈ t, ∃ r, F e.2 = .ok r) : ∃ r, mapTable F t = .ok r := by
  induction t with
  | nil => exact ⟨[], rfl⟩
  | cons e rest ih =>
    obtain ⟨k, l⟩ := e
    obtain ⟨l', hl'⟩ := h (k, l) (List.mem_cons_self ..)
    obtain ⟨r, hr⟩ := ih (fun e he => h e (List.mem_cons_of_mem _ he))
    simp only at hl'
    simp only [mapTable, hl', hr]
    exact ⟨_, rfl⟩

theorem importSource_ok (lm : Mapper) (exclude : List Nat) (p : PeerFile) (h2 : 2 ≤ lm.n)
    (hc : ∀ e ∈ p.cmap, ∀ c ∈ e.2, c < lm.n) {fm : Mapper}
    (hfm : Mapper.new (sanitizeTable p.table) = .ok fm) : ∃ f, importSource lm exclude p = .ok f := by
  have hn : fm.n = (sanitizeTable p.table).n := (new_ok hfm).2.2.2.1
  obtain ⟨mapping, hmap⟩ := foreignToLocal_ok lm p.cmap h2 hc (List.range fm.n)
  obtain ⟨a, ha⟩ := mapTable_ok (localizeAudits lm fm mapping) (preAudits fm.n exclude p) (by
    rintro ⟨k, l⟩ he
    obtain ⟨_, rl, _, rfl⟩ := mem_preAudits _ _ _ _ _ he
    apply localizeAudits_ok
    intro a ha
    obtain ⟨raw, _, rfl⟩ := mem_sanitizeAudits _ _ _ (List.mem_filter.1 ha).1
    intro c hc
    simpa using (List.mem_filter.1 hc).2)
  obtain ⟨w, hw⟩ := mapTable_ok (localizeWildcards lm fm mapping) (preWild fm.n exclude p) (by
    rintro ⟨k, l⟩ he
    obtain ⟨_, rl, _, rfl⟩ := mem_preWild _ _ _ _ _ he
    apply localizeWildcards_ok
    intro a ha
    obtain ⟨raw, _, rfl⟩ := mem_sanitizeWildcards _ _ _ ha
    intro c hc
    simpa using (List.mem_filter.1 hc).2)
  simp only [preAudits, hn] at ha
  simp only [preWild, hn] at hw
  rw [hn] at hmap
  exact ⟨⟨a, w⟩, by simp only [importSource, hfm, hn, hmap, ha, hw]⟩

theorem importGo_ok (lm : Mapper) (cfg : ImportCfg) (h2 : 2 ≤ lm.n) :
    ∀ ps : List PeerFile, (∀ p ∈ ps, ∀ e ∈ p.cmap, ∀ c ∈ e.2, c < lm.n) →
      ∃ r, importOne.go lm cfg ps = .ok r := by
  intro ps
  induction ps with
  | nil => intro _; exact ⟨_, rfl⟩
  | cons p ps ih =>
    intro h
    obtain ⟨r, hr⟩ := ih (fun q hq => h q (List.mem_cons_of_mem _ hq))
    cases hct : checkTable (sanitizeTable p.table) with
    | false => exact ⟨none, by simp only [importOne.go, hct, Bool.not_false, if_true]⟩
    | true =>
      obtain ⟨fm, hfm⟩ := checkTable_sound (sanitizeTable_wf p.table) hct
      obtain ⟨f, hf⟩ := importSource_ok lm cfg.exclude p h2 (h p (List.mem_cons_self ..)) hfm
      cases r with
      | none => exact ⟨none, by simp only [importOne.go, hct, hf, hr, Bool.not_true, Bool.false_eq_true, if_false]⟩
      | some fs =>
        exact ⟨some (f :: fs), by simp only [importOne.go, hct, hf, hr, Bool.not_true, Bool.false_eq_true, if_false]⟩

theorem importOne_ok (lm : Mapper) (cfg : ImportCfg) (h2 : 2 ≤ lm.n)
    (h : ∀ p ∈ cfg.sources, ∀ e ∈ p.cmap, ∀ c ∈ e.2, c < lm.n) : ∃ r, importOne lm cfg = .ok r := by
  obtain ⟨r, hr⟩ := importGo_ok lm cfg h2 cfg.sources h
  unfold importOne
  rw [hr]
  split
  · next h' => cases h'
  · exact ⟨_, rfl⟩
  · exact ⟨_, rfl⟩
  · split <;> exact ⟨_, rfl⟩

end Vet
