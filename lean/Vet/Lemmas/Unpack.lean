/- Helper lemmas for the unpack model. -/
import Vet.Model.Unpack
namespace Vet.Unpack

/-! ### `lookup` algebra -/

theorem lookup_cons (p : Path) (n : Node) (fs : FS) (q : Path) :
    lookup ((p, n) :: fs) q = if p = q then some n else lookup fs q := rfl

theorem lookup_filter (f : Path → Bool) (fs : FS) (q : Path) :
    lookup (fs.filter (fun e => f e.1)) q = if f q = true then lookup fs q else none := by
  induction fs with
  | nil => simp [lookup]
  | cons x xs ih =>
    obtain ⟨p, n⟩ := x
    by_cases hp : f p = true
    · rw [List.filter_cons_of_pos (by simpa using hp), lookup_cons, lookup_cons, ih]
      by_cases hpq : p = q
      · subst hpq; simp [hp]
      · simp [hpq]
    · rw [List.filter_cons_of_neg (by simpa using hp), lookup_cons, ih]
      by_cases hpq : p = q
      · subst hpq; simp [hp]
      · simp [hpq]

theorem lookup_remove (fs : FS) (p q : Path) :
    lookup (remove fs p) q = if q = p then none else lookup fs q := by
  have := lookup_filter (fun x => x != p) fs q
  simp only [remove, this]
  by_cases h : q = p <;> simp [h]

theorem lookup_removeTree (fs : FS) (p q : Path) :
    lookup (removeTree fs p) q = if p <+: q then none else lookup fs q := by
  have := lookup_filter (fun x => !(p.isPrefixOf x)) fs q
  simp only [removeTree, this]
  by_cases h : p <+: q
  · have h' : p.isPrefixOf q = true := List.isPrefixOf_iff_prefix.mpr h
    simp [h, h']
  · have h' : p.isPrefixOf q = false := by
      cases hb : p.isPrefixOf q with
      | false => rfl
      | true => exact absurd (List.isPrefixOf_iff_prefix.mp hb) h
    simp [h, h']

theorem lookup_set (fs : FS) (p : Path) (n : Node) (q : Path) :
    lookup (set fs p n) q = if q = p then some n else lookup fs q := by
  simp only [set, lookup_cons, lookup_remove]
  by_cases h : q = p
  · simp [h]
  · have h' : ¬ p = q := fun e => h e.symm
    simp [h, h']

/-! ### extensional equality -/

def Equiv (a b : FS) : Prop := ∀ q, lookup a q = lookup b q

theorem Equiv.refl (a : FS) : Equiv a a := fun _ => rfl
theorem Equiv.symm {a b : FS} (h : Equiv a b) : Equiv b a := fun q => (h q).symm
theorem Equiv.trans {a b c : FS} (h : Equiv a b) (h' : Equiv b c) : Equiv a c :=
  fun q => (h q).trans (h' q)

theorem set_congr {a b : FS} (h : Equiv a b) (p : Path) (n : Node) : Equiv (set a p n) (set b p n) := by
  intro q; simp only [lookup_set, h q]

theorem removeTree_congr {a b : FS} (h : Equiv a b) (p : Path) : Equiv (removeTree a p) (removeTree b p) := by
  intro q; simp only [lookup_removeTree, h q]

theorem canon_congr {a b : FS} (h : Equiv a b) (fuel : Nat) (acc rest : Path) :
    canon a fuel acc rest = canon b fuel acc rest := by
  induction fuel generalizing acc rest with
  | zero => rfl
  | succ fuel ih =>
    cases rest with
    | nil => rfl
    | cons c rest =>
      simp only [canon, h (acc ++ [c]), ih]

theorem mkdirs_congr {a b : FS} (h : Equiv a b) (base p : Path) :
    Equiv (mkdirs a base p) (mkdirs b base p) := by
  induction p generalizing a b base with
  | nil => exact h
  | cons c rest ih =>
    simp only [mkdirs]
    apply ih
    rw [h (base ++ [c])]
    cases lookup b (base ++ [c]) with
    | none => exact set_congr h _ _
    | some _ => exact h

theorem writeThrough_congr {a b : FS} (h : Equiv a b) (fuel : Nat) (p : Path) (c : Nat) :
    Equiv (writeThrough a fuel p c) (writeThrough b fuel p c) := by
  induction fuel generalizing p with
  | zero => exact h
  | succ fuel ih =>
    simp only [writeThrough, h p]
    split
    · exact ih _
    · exact h
    · exact set_congr h _ _

theorem fetchIsOk_congr {a b : FS} (h : Equiv a b) (srcDir : Path) (pfx : Nat) :
    fetchIsOk a srcDir pfx = fetchIsOk b srcDir pfx := by
  simp only [fetchIsOk, canon_congr h]
  split
  · rw [h]
  · rfl

/-! ### `canon` in a link-free region -/

def NotSym (o : Option Node) : Prop := ∀ t, o ≠ some (.symlink t)

/-- every non-empty prefix of `p` is present and is not a link -/
def Good (fs : FS) (p : Path) : Prop :=
  ∀ pre, pre ≠ [] → pre <+: p → lookup fs pre ≠ none ∧ NotSym (lookup fs pre)

theorem canon_nolink (fs : FS) (fuel : Nat) (acc rest r : Path)
    (h : ∀ pre, pre ≠ [] → pre <+: rest → NotSym (lookup fs (acc ++ pre)))
    (hc : canon fs fuel acc rest = some r) : r = acc ++ rest := by
  induction fuel generalizing acc rest with
  | zero => simp [canon] at hc
  | succ fuel ih =>
    cases rest with
    | nil => simp [canon] at hc; simp [hc]
    | cons c rest =>
      simp only [canon] at hc
      split at hc
      · rename_i t ht
        exact absurd ht (h [c] (by simp) (by simp) t)
      · have := ih (acc ++ [c]) rest (by
          intro pre hpre hpr
          have := h (c :: pre) (by simp) (by simpa using hpr)
          simpa using this) hc
        simpa using this
      · simp at hc

theorem canon_present (fs : FS) (fuel : Nat) (acc rest : Path) (hlen : rest.length < fuel)
    (h : ∀ pre, pre ≠ [] → pre <+: rest →
      lookup fs (acc ++ pre) ≠ none ∧ NotSym (lookup fs (acc ++ pre))) :
    canon fs fuel acc rest = some (acc ++ rest) := by
  induction fuel generalizing acc rest with
  | zero => omega
  | succ fuel ih =>
    cases rest with
    | nil => simp [canon]
    | cons c rest =>
      simp only [canon]
      have hc := h [c] (by simp) (by simp)
      split
      · rename_i t ht
        exact absurd ht (hc.2 t)
      · have := ih (acc ++ [c]) rest (by simpa using hlen) (by
          intro pre hpre hpr
          have := h (c :: pre) (by simp) (by simpa using hpr)
          simpa using this)
        simpa using this
      · rename_i hn
        exact absurd hn hc.1

theorem canon_good (fs : FS) (fuel : Nat) (acc rest r : Path) (hacc : Good fs acc)
    (hc : canon fs fuel acc rest = some r) : Good fs r ∧ r.length < fuel + acc.length := by
  induction fuel generalizing acc rest with
  | zero => simp [canon] at hc
  | succ fuel ih =>
    cases rest with
    | nil =>
      simp [canon] at hc; subst hc
      exact ⟨hacc, by omega⟩
    | cons c rest =>
      simp only [canon] at hc
      split at hc
      · have := ih [] _ (by intro pre hpre hpr; simp at hpr; exact absurd hpr hpre) hc
        exact ⟨this.1, by have := this.2; simp at this; omega⟩
      · rename_i n hns hn
        have := ih (acc ++ [c]) rest (by
          intro pre hpre hpr
          rcases List.prefix_concat_iff.mp hpr with h | h
          · subst h
            refine ⟨by simp [hn], ?_⟩
            intro t ht
            rw [hn] at ht
            cases ht
            exact hns t rfl
          · exact hacc pre hpre h) hc
        exact ⟨this.1, by have := this.2; simp at this; omega⟩
      · simp at hc

theorem good_of_canon (fs : FS) (p : Path) (h : canon fs 64 [] p = some p) :
    Good fs p ∧ p.length < 64 := by
  have := canon_good fs 64 [] p p (by intro pre hpre hpr; simp at hpr; exact absurd hpr hpre) h
  simpa using this

/-! ### `mkdirs` -/

theorem mkdirs_lookup (s : FS) (base path q : Path) :
    lookup (mkdirs s base path) q = lookup s q ∨
    (lookup (mkdirs s base path) q = some .dir ∧ lookup s q = none ∧
      ∃ pre, pre ≠ [] ∧ pre <+: path ∧ q = base ++ pre) := by
  induction path generalizing s base with
  | nil => left; rfl
  | cons c rest ih =>
    simp only [mkdirs]
    cases hl : lookup s (base ++ [c]) with
    | some n =>
      rcases ih s (base ++ [c]) with h | ⟨h1, h0, pre, hpre, hpr, hq⟩
      · left; exact h
      · right
        refine ⟨h1, h0, c :: pre, by simp, by simpa using hpr, by simp [hq]⟩
    | none =>
      simp only
      rcases ih (set s (base ++ [c]) .dir) (base ++ [c]) with h | ⟨h1, h0, pre, hpre, hpr, hq⟩
      · rw [lookup_set] at h
        by_cases hq : q = base ++ [c]
        · right
          rw [if_pos hq] at h
          exact ⟨h, hq ▸ hl, [c], by simp, by simp, hq⟩
        · left; rw [if_neg hq] at h; exact h
      · right
        rw [lookup_set] at h0
        by_cases hq' : q = base ++ [c]
        · rw [if_pos hq'] at h0; cases h0
        · rw [if_neg hq'] at h0
          refine ⟨h1, h0, c :: pre, by simp, by simpa using hpr, by simp [hq]⟩

/-! ### `unpackIn` -/

def relOf (e : Entry) : Path :=
  e.path.filterMap (fun c => match c with | .normal n => some n | _ => none)

/-- the final write of `unpackIn`, depending on what already exists at the target -/
def writeNode (fs1 : FS) (target : Path) (k : EntryKind) : Step :=
  match k, lookup fs1 target with
  | .dir, none => .ok (set fs1 target .dir)
  | .dir, some .dir => .ok fs1
  | .dir, some (.symlink t) => if lookup fs1 t == some .dir then .ok fs1 else .error
  | .dir, some (.file _) => .error
  | .file _, some .dir => .error
  | .file c, _ => .ok (set fs1 target (.file c))
  | .symlink _, some .dir => .error
  | .symlink t, _ => .ok (set fs1 target (.symlink t))

def finish (fs1 : FS) (srcDir : Path) (e : Entry) : Step :=
  match canon fs1 64 [] (srcDir ++ (relOf e).dropLast), canon fs1 64 [] srcDir with
  | some cp, some cd =>
    if !(cd.isPrefixOf cp) then .error
    else writeNode fs1 (cp ++ [(relOf e).getLastD 0]) e.kind
  | _, _ => .error

theorem unpackIn_eq (s : FS) (srcDir : Path) (e : Entry) :
    unpackIn s srcDir e =
      if e.path.any (fun c => c == .parent) then .ok s
      else if (relOf e).isEmpty then .ok s
      else finish (mkdirs s srcDir (relOf e).dropLast) srcDir e := by
  obtain ⟨path, kind⟩ := e
  cases kind <;> rfl

def StepEquiv : Step → Step → Prop
  | .ok a, .ok b => Equiv a b
  | .error, .error => True
  | _, _ => False

theorem StepEquiv.ok {a b : FS} (h : Equiv a b) : StepEquiv (.ok a) (.ok b) := h

theorem writeNode_congr {a b : FS} (h : Equiv a b) (t : Path) (k : EntryKind) :
    StepEquiv (writeNode a t k) (writeNode b t k) := by
  unfold writeNode
  rw [h t]
  cases k with
  | dir =>
    cases lookup b t with
    | none => exact set_congr h _ _
    | some n =>
      cases n with
      | dir => exact h
      | file c => trivial
      | symlink l =>
        simp only [h l]
        split
        · exact h
        · trivial
  | file c =>
    cases lookup b t with
    | none => exact set_congr h _ _
    | some n => cases n <;> first | trivial | exact set_congr h _ _
  | symlink l =>
    cases lookup b t with
    | none => exact set_congr h _ _
    | some n => cases n <;> first | trivial | exact set_congr h _ _

theorem finish_congr {a b : FS} (h : Equiv a b) (srcDir : Path) (e : Entry) :
    StepEquiv (finish a srcDir e) (finish b srcDir e) := by
  simp only [finish, canon_congr h]
  split
  · split
    · trivial
    · exact writeNode_congr h _ _
  · trivial

theorem unpackIn_congr {a b : FS} (h : Equiv a b) (srcDir : Path) (e : Entry) :
    StepEquiv (unpackIn a srcDir e) (unpackIn b srcDir e) := by
  simp only [unpackIn_eq]
  split
  · exact h
  · split
    · exact h
    · exact finish_congr (mkdirs_congr h _ _) _ _

theorem unpackEntries_congr {a b : FS} (h : Equiv a b) (srcDir : Path) (pfx : Nat)
    (es : List Entry) (k : Nat) :
    Equiv (unpackEntries a srcDir pfx es k).1 (unpackEntries b srcDir pfx es k).1 ∧
    (unpackEntries a srcDir pfx es k).2 = (unpackEntries b srcDir pfx es k).2 := by
  induction es generalizing a b k with
  | nil => exact ⟨h, rfl⟩
  | cons e rest ih =>
    cases k with
    | zero => exact ⟨h, rfl⟩
    | succ k =>
      simp only [unpackEntries]
      split
      · exact ⟨h, rfl⟩
      · split
        · exact ih h k          -- the archive's own marker entry: skipped
        · have hs := unpackIn_congr h srcDir e
          revert hs
          cases unpackIn a srcDir e <;> cases unpackIn b srcDir e <;> intro hs
          · exact ih hs k
          · exact absurd hs (by simp [StepEquiv])
          · exact absurd hs (by simp [StepEquiv])
          · exact ⟨h, rfl⟩

end Vet.Unpack
