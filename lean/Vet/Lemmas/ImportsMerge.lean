/- Multi-source aggregation: `insertKey` / `mergeTables` read through `getL`. -/
import Vet.Lemmas.Imports
namespace Vet

theorem insertKey_keys {β : Type} (k : Nat) (v : List β) (t : List (Nat × List β)) :
    ∀ x ∈ (insertKey k v t).map (·.1), x = k ∨ x ∈ t.map (·.1) := by
  induction t with
  | nil => simp [insertKey]
  | cons e rest ih =>
    obtain ⟨k', v'⟩ := e
    intro x hx
    simp only [insertKey] at hx
    split at hx
    · simpa using hx
    · split at hx
      · simpa using Or.inr hx
      · simp only [List.map_cons, List.mem_cons] at hx ⊢
        rcases hx with hx | hx
        · exact Or.inr (Or.inl hx)
        · rcases ih x hx with h | h
          · exact Or.inl h
          · exact Or.inr (Or.inr h)

theorem insertKey_sorted {β : Type} (k : Nat) (v : List β) (t : List (Nat × List β))
    (hs : (t.map (·.1)).Pairwise (· < ·)) : ((insertKey k v t).map (·.1)).Pairwise (· < ·) := by
  induction t with
  | nil => simp [insertKey]
  | cons e rest ih =>
    obtain ⟨k', v'⟩ := e
    simp only [List.map_cons, List.pairwise_cons] at hs
    simp only [insertKey]
    split
    · next hlt =>
      simp only [List.map_cons, List.pairwise_cons, List.mem_cons]
      refine ⟨?_, hs⟩
      rintro x (rfl | hx)
      · exact hlt
      · exact Nat.lt_trans hlt (hs.1 x hx)
    · split
      · simpa using hs
      · next h1 h2 =>
        simp only [List.map_cons, List.pairwise_cons]
        refine ⟨?_, ih hs.2⟩
        intro x hx
        rcases insertKey_keys k v rest x hx with rfl | hx
        · omega
        · exact hs.1 x hx

theorem getL_cons {β : Type} (name k : Nat) (v : List β) (t : List (Nat × List β)) :
    getL name ((k, v) :: t) = if k = name then v else getL name t := by
  simp only [getL, assoc?]
  split <;> rfl

theorem getL_insertKey {β : Type} (name k : Nat) (v : List β) (t : List (Nat × List β))
    (hs : (t.map (·.1)).Pairwise (· < ·)) :
    getL name (insertKey k v t) = if k = name then getL name t ++ v else getL name t := by
  induction t with
  | nil =>
    simp only [insertKey, getL_cons]
    split <;> simp [getL, assoc?]
  | cons e rest ih =>
    obtain ⟨k', v'⟩ := e
    simp only [List.map_cons, List.pairwise_cons] at hs
    simp only [insertKey]
    split
    · next hlt =>
      rw [getL_cons name k]
      split
      · next hk =>
        subst hk
        have : getL k ((k', v') :: rest) = [] := by
          apply getL_nil_of
          intro e he
          rcases List.mem_cons.1 he with rfl | he
          · simp; omega
          · have := hs.1 e.1 (List.mem_map.2 ⟨e, he, rfl⟩); omega
        rw [this]; rfl
      · rfl
    · split
      · next h1 hk =>
        subst hk
        simp only [getL_cons]
        split <;> rfl
      · next h1 h2 =>
        simp only [getL_cons name k']
        split
        · next hk' => subst hk'; rw [if_neg h2]
        · exact ih hs.2

theorem mergeTables_sorted {β : Type} (a b : List (Nat × List β))
    (hs : (a.map (·.1)).Pairwise (· < ·)) : ((mergeTables a b).map (·.1)).Pairwise (· < ·) := by
  unfold mergeTables
  induction b generalizing a with
  | nil => exact hs
  | cons e rest ih =>
    simp only [List.foldl_cons]
    exact ih _ (insertKey_sorted _ _ _ hs)

theorem getL_mergeTables {β : Type} (name : Nat) (a b : List (Nat × List β))
    (hs : (a.map (·.1)).Pairwise (· < ·)) (hb : (b.map (·.1)).Nodup) :
    getL name (mergeTables a b) = getL name a ++ getL name b := by
  unfold mergeTables
  induction b generalizing a with
  | nil => simp [getL, assoc?]
  | cons e rest ih =>
    obtain ⟨k, v⟩ := e
    simp only [List.map_cons, List.nodup_cons] at hb
    simp only [List.foldl_cons]
    rw [ih _ (insertKey_sorted _ _ _ hs) hb.2, getL_insertKey name k v a hs, getL_cons]
    split
    · next hk =>
      subst hk
      have : getL k rest = [] := by
        apply getL_nil_of
        intro e he hek
        exact hb.1 (List.mem_map.2 ⟨e, he, hek⟩)
      rw [this]; simp
    · rfl

/-- `importSource` only outputs importable audits -/
theorem importSource_importable (lm : Mapper) (exclude : List Nat) (p : PeerFile) (f : AFile)
    (h : importSource lm exclude p = .ok f) : ∀ e ∈ f.audits, ∀ a ∈ e.2, a.importable = true := by
  obtain ⟨fm, mapping, _, _, hA, _⟩ := importSource_inv lm exclude p f h
  rintro ⟨k, l'⟩ he a' ha'
  obtain ⟨l, hl, hloc⟩ := mapTable_mem _ _ _ hA k l' he
  obtain ⟨_, rl, _, rfl⟩ := mem_preAudits _ _ _ _ _ hl
  obtain ⟨a, c, hmem, _, rfl⟩ := localizeAudits_mem lm fm mapping _ _ hloc a' ha'
  exact (List.mem_filter.1 hmem).2

theorem importSource_filter_id (lm : Mapper) (exclude : List Nat) (p : PeerFile) (f : AFile)
    (h : importSource lm exclude p = .ok f) :
    f.audits.map (fun (n, l) => (n, l.filter (·.importable))) = f.audits := by
  have := importSource_importable lm exclude p f h
  conv => rhs; rw [← List.map_id f.audits]
  apply List.map_congr_left
  rintro ⟨n, l⟩ he
  simp only [id]
  congr 1
  exact List.filter_eq_self.2 (this (n, l) he)

end Vet
