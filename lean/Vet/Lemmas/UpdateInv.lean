/- Inversion of `getStoreUpdates`: names for the components of a successful run. -/
import Vet.Lemmas.UpdateKeep
namespace Vet

/-- `reqOf` of `getStoreUpdates`: packages not in the graph require nothing -/
def reqOfL (required : List (Nat × Option Required)) : Nat → Option Required :=
  fun n => (assoc? n required).getD (some [])

def auditsUpd (s : Store) (modeOf : Nat → UpdateMode) (required : List (Nat × Option Required)) :
    List (Nat × List Nat) :=
  s.locals.audits.map (fun (n, l) =>
    match assoc? n required with
    | some (some r) =>
      if (modeOf n).pruneNonImportable then
        (n, keepIdx l (fun i a => a.importable || isViolation a || r.has (.localAudit i)))
      else (n, keepIdx l (fun _ _ => true))
    | _ => (n, keepIdx l (fun _ _ => true)))

def impAuditPred (s : Store) (modeOf : Nat → UpdateMode) (required : List (Nat × Option Required))
    (ii : Nat) (n : Nat) : Nat → Audit → Bool :=
  fun i a =>
    if !(shouldPruneImports s (reqOfL required n) (modeOf n) n) && !a.fresh then true
    else if isViolation a then (assoc? n required).isSome
    else match reqOfL required n with
      | some r => r.has (.audit ii i)
      | none => !a.fresh

def impWildPred (s : Store) (modeOf : Nat → UpdateMode) (required : List (Nat × Option Required))
    (ii : Nat) (n : Nat) : Nat → Wildcard → Bool :=
  fun i a =>
    if !(shouldPruneImports s (reqOfL required n) (modeOf n) n) && !a.fresh then true
    else match reqOfL required n with
      | some r => r.has (.wildcard ii i)
      | none => !a.fresh

def pubPred (s : Store) (modeOf : Nat → UpdateMode) (required : List (Nat × Option Required))
    (n : Nat) : Nat → Publisher → Bool :=
  fun i a =>
    if !(shouldPruneImports s (reqOfL required n) (modeOf n) n) && !a.fresh then true
    else match reqOfL required n with
      | some r => r.has (.publisher i)
      | none => !a.fresh

def unpubPred (modeOf : Nat → UpdateMode) (required : List (Nat × Option Required))
    (n : Nat) : Nat → Unpub → Bool :=
  fun i a =>
    if !((modeOf n).pruneExemptions) && !a.fresh then true
    else match reqOfL required n with
      | some r => r.has (.unpublished i)
      | none => !a.fresh

def importsUpd (s : Store) (modeOf : Nat → UpdateMode) (required : List (Nat × Option Required)) :
    List (List (Nat × List Nat) × List (Nat × List Nat)) :=
  s.imports.zipIdx.map (fun (f, ii) =>
    (f.audits.map (fun (n, l) => (n, keepIdx l (impAuditPred s modeOf required ii n))),
     f.wildcards.map (fun (n, l) => (n, keepIdx l (impWildPred s modeOf required ii n)))))

def publishersUpd (s : Store) (modeOf : Nat → UpdateMode) (required : List (Nat × Option Required)) :
    List (Nat × List Nat) :=
  s.publishers.map (fun (n, l) => (n, keepIdx l (pubPred s modeOf required n)))

def unpublishedUpd (s : Store) (modeOf : Nat → UpdateMode) (required : List (Nat × Option Required)) :
    List (Nat × List Nat) :=
  s.unpublished.map (fun (n, l) => (n, keepIdx l (unpubPred modeOf required n)))

def freshFold (m : Mapper) (required : List (Nat × Option Required))
    (ex0 : List (Nat × List Exemption)) : List (Nat × List Exemption) :=
  required.foldl (fun t (n, r) =>
    match r with
    | some r => addFresh t n (freshExemptions m r)
    | none => t) ex0

theorem getStoreUpdates_inv {w : World} {modeOf : Nat → UpdateMode} {u : Updates}
    (h : getStoreUpdates w modeOf = .ok u) :
    ∃ dg m reqs required ex0,
      DepGraph.new w.md w.store.policy = .ok dg ∧ Mapper.new w.table = .ok m ∧
      resolveRequirements dg w.store.policy m = .ok reqs ∧
      allRequired dg m reqs w.store modeOf (dg.nodes.map (·.name)) [] = .ok required ∧
      exemptionTable m modeOf (reqOfL required) w.store.exemptions = .ok ex0 ∧
      u = { audits := auditsUpd w.store modeOf required,
            imports := importsUpd w.store modeOf required,
            publishers := publishersUpd w.store modeOf required,
            unpublished := unpublishedUpd w.store modeOf required,
            exemptions := freshFold m required ex0 } := by
  unfold getStoreUpdates at h
  split at h
  · cases h
  · rename_i dg hdg
    split at h
    · cases h
    · rename_i m hm
      split at h
      · cases h
      · rename_i reqs hreqs
        split at h
        · cases h
        · rename_i required hrequired
          simp only at h
          split at h
          · cases h
          · rename_i ex0 hex0
            cases h
            exact ⟨dg, m, reqs, required, ex0, hdg, hm, hreqs, hrequired, hex0, rfl⟩

end Vet
