/- Helper lemmas for `DepGraph::new`: facts about `sortPkgs` / `intern`, and the unfolded
shape of `DepGraph.new`. -/
import Vet.Lemmas.Topo
namespace Vet
namespace Topo

/-! ### Names for the local definitions of `DepGraph.new` -/

def srt (md : Meta) : List (Nat × RawPkg) := sortPkgs md.pkgs
def rawOrder (md : Meta) : List Nat := (srt md).map (·.1)
def intern (md : Meta) (raw : Nat) : Nat := (indexOf? raw (rawOrder md)).getD 0
def pk (md : Meta) (idx : Nat) : RawPkg := ((srt md).getD idx (0, ⟨0, 0, 0, false, []⟩)).2
def nbF (md : Meta) (idx : Nat) : List Nat := depsOf (intern md) 3 (pk md idx)
def devF (md : Meta) (idx : Nat) : List Nat := depsOf (intern md) 4 (pk md idx)
def mems (md : Meta) : List Nat := md.members.map (intern md)

def mkNode (md : Meta) (pol : Policy) (s1 s2 : VisitState) (idx : Nat) : PkgNode :=
  { name := (pk md idx).name, ver := (pk md idx).ver,
    thirdParty := ((pol.get (pk md idx).name (pk md idx).ver).bind (·.auditAs)).getD false
      || (pk md idx).cratesIo,
    normalBuildDeps := if s2.visited.contains idx then nbF md idx else [],
    devDeps := if (mems md).contains idx then devF md idx else [],
    reverseDeps := sortDedup ((s2.redges.filter (fun e => e.1 == idx)).map (·.2)),
    isMember := (mems md).contains idx,
    isRoot := (mems md).contains idx && !(s1.redges.any (fun e => e.1 == idx)),
    isDevOnly := !(s1.visited.contains idx) }

theorem new_eq (md : Meta) (pol : Policy) :
    DepGraph.new md pol =
      match visitAll (nbF md) ((srt md).length + 1) (mems md) ⟨[], [], []⟩ with
      | .error e => .error e
      | .ok s1 =>
        match visitDev (nbF md) (devF md) ((srt md).length + 1) (mems md) s1 with
        | .error e => .error e
        | .ok s2 =>
          .ok { nodes := (List.range (srt md).length).map (mkNode md pol s1 s2),
                topo := s2.topo } := rfl

/-! ### Sorting -/

theorem insertSorted_perm (x : Nat × RawPkg) (l : List (Nat × RawPkg)) :
    (insertSorted x l).Perm (x :: l) := by
  induction l with
  | nil => exact List.Perm.refl _
  | cons y ys ih =>
    simp only [insertSorted]
    split
    · exact List.Perm.refl _
    · exact ((List.Perm.cons y ih).trans (List.Perm.swap x y ys))

theorem foldr_insertSorted_perm (l : List (Nat × RawPkg)) :
    (l.foldr insertSorted []).Perm l := by
  induction l with
  | nil => exact List.Perm.refl _
  | cons x xs ih =>
    simp only [List.foldr_cons]
    exact (insertSorted_perm x _).trans (List.Perm.cons x ih)

theorem srt_perm (md : Meta) :
    (srt md).Perm (md.pkgs.zipIdx.map (fun (p, i) => (i, p))) :=
  foldr_insertSorted_perm _

theorem srt_length (md : Meta) : (srt md).length = md.pkgs.length := by
  rw [(srt_perm md).length_eq]; simp

theorem srt_mem {md : Meta} {i : Nat} {p : RawPkg} (h : (i, p) ∈ srt md) :
    md.pkgs[i]? = some p := by
  rw [(srt_perm md).mem_iff] at h
  simp only [List.mem_map] at h
  obtain ⟨⟨p', i'⟩, hm, heq⟩ := h
  rw [List.mem_zipIdx_iff_getElem?] at hm
  cases heq
  exact hm

theorem rawOrder_mem {md : Meta} {r : Nat} (h : r < md.pkgs.length) : r ∈ rawOrder md := by
  unfold rawOrder
  simp only [List.mem_map]
  refine ⟨(r, md.pkgs[r]), ?_, rfl⟩
  rw [(srt_perm md).mem_iff]
  simp only [List.mem_map]
  refine ⟨(md.pkgs[r], r), ?_, rfl⟩
  rw [List.mem_zipIdx_iff_getElem?]
  simp

theorem rawOrder_length (md : Meta) : (rawOrder md).length = (srt md).length := by
  unfold rawOrder; simp

/-! ### `indexOf?` -/

theorem indexOf?_some {x : Nat} : ∀ {l : List Nat} {k : Nat}, indexOf? x l = some k → l[k]? = some x := by
  intro l
  induction l with
  | nil => intro k h; simp [indexOf?] at h
  | cons y ys ih =>
    intro k h
    simp only [indexOf?] at h
    split at h
    · rename_i hy
      cases h
      simp [hy]
    · simp only [Option.map_eq_some_iff] at h
      obtain ⟨k', hk', rfl⟩ := h
      simpa using ih hk'

theorem indexOf?_mem {x : Nat} : ∀ {l : List Nat}, x ∈ l → ∃ k, indexOf? x l = some k := by
  intro l
  induction l with
  | nil => intro h; simp at h
  | cons y ys ih =>
    intro h
    simp only [indexOf?]
    split
    · exact ⟨0, rfl⟩
    · rename_i hy
      simp only [List.mem_cons] at h
      rcases h with rfl | h
      · exact absurd rfl hy
      · obtain ⟨k, hk⟩ := ih h
        exact ⟨k + 1, by simp [hk]⟩

theorem intern_lt (md : Meta) (r : Nat) (hn : 0 < (srt md).length) : intern md r < (srt md).length := by
  unfold intern
  cases h : indexOf? r (rawOrder md) with
  | none => simpa using hn
  | some k =>
    have := indexOf?_some h
    have hk : k < (rawOrder md).length := by
      rcases Nat.lt_or_ge k (rawOrder md).length with h' | h'
      · exact h'
      · rw [List.getElem?_eq_none h'] at this; cases this
    rw [rawOrder_length] at hk
    simpa using hk

/-- `rawOrder[intern r] = r` for raw indices in range -/
theorem rawOrder_intern {md : Meta} {r : Nat} (h : r < md.pkgs.length) :
    (rawOrder md)[intern md r]? = some r := by
  obtain ⟨k, hk⟩ := indexOf?_mem (rawOrder_mem h)
  unfold intern
  rw [hk]
  exact indexOf?_some hk

/-! ### `pk`, `nbF`, `devF` -/

theorem pk_ge {md : Meta} {idx : Nat} (h : (srt md).length ≤ idx) :
    pk md idx = ⟨0, 0, 0, false, []⟩ := by
  unfold pk
  rw [List.getD_eq_getElem?_getD, List.getElem?_eq_none h]
  rfl

theorem pk_lt {md : Meta} {idx : Nat} (h : idx < (srt md).length) :
    ∃ r, (rawOrder md)[idx]? = some r ∧ md.pkgs[r]? = some (pk md idx) := by
  have hm : (srt md)[idx] ∈ srt md := List.getElem_mem h
  refine ⟨((srt md)[idx]).1, ?_, ?_⟩
  · unfold rawOrder; simp [h]
  · have : pk md idx = ((srt md)[idx]).2 := by
      unfold pk
      rw [List.getD_eq_getElem?_getD, List.getElem?_eq_getElem h]
      rfl
    rw [this]
    exact srt_mem hm

theorem pk_mem {md : Meta} {idx : Nat} (h : idx < (srt md).length) : pk md idx ∈ md.pkgs := by
  obtain ⟨r, _, hr⟩ := pk_lt h
  exact List.mem_of_getElem? hr

theorem mem_depsOf {f : Nat → Nat} {mask : Nat} {p : RawPkg} {b : Nat} :
    b ∈ depsOf f mask p ↔ ∃ d ∈ p.deps, (d.2 &&& mask != 0) = true ∧ f d.1 = b := by
  unfold depsOf
  simp only [List.mem_map, List.mem_filter]
  constructor
  · rintro ⟨d, ⟨h1, h2⟩, h3⟩; exact ⟨d, h1, h2, h3⟩
  · rintro ⟨d, h1, h2, h3⟩; exact ⟨d, ⟨h1, h2⟩, h3⟩

theorem depsOf_lt (md : Meta) (mask a b : Nat) (h : b ∈ depsOf (intern md) mask (pk md a)) :
    b < (srt md).length := by
  rcases Nat.lt_or_ge a (srt md).length with ha | ha
  · rw [mem_depsOf] at h
    obtain ⟨d, _, _, rfl⟩ := h
    exact intern_lt md _ (Nat.lt_of_le_of_lt (Nat.zero_le _) ha)
  · rw [pk_ge ha] at h
    simp [depsOf] at h

theorem nbF_lt (md : Meta) (a b : Nat) (h : b ∈ nbF md a) : b < (srt md).length :=
  depsOf_lt md 3 a b h

theorem devF_lt (md : Meta) (a b : Nat) (h : b ∈ devF md a) : b < (srt md).length :=
  depsOf_lt md 4 a b h

theorem mems_lt (md : Meta) (hwf : md.WF) : ∀ m ∈ mems md, m < (srt md).length := by
  intro m hm
  unfold mems at hm
  simp only [List.mem_map] at hm
  obtain ⟨r, hr, rfl⟩ := hm
  apply intern_lt
  rw [srt_length]
  exact Nat.lt_of_le_of_lt (Nat.zero_le _) (hwf.members r hr)

/-- transport of the acyclicity rank to sorted numbering -/
theorem nbF_rank (md : Meta) (hwf : md.WF) (rank : Nat → Nat)
    (hrank : ∀ i p, md.pkgs[i]? = some p → ∀ d ∈ p.deps, d.2 &&& 3 ≠ 0 → rank d.1 < rank i) :
    ∀ a b, b ∈ nbF md a →
      rank ((rawOrder md).getD b 0) < rank ((rawOrder md).getD a 0) := by
  intro a b h
  rcases Nat.lt_or_ge a (srt md).length with ha | ha
  · obtain ⟨r, hr1, hr2⟩ := pk_lt ha
    unfold nbF at h
    rw [mem_depsOf] at h
    obtain ⟨d, hd, hmask, rfl⟩ := h
    have hdlt : d.1 < md.pkgs.length := hwf.deps _ (pk_mem ha) d hd
    have h1 := rawOrder_intern hdlt
    rw [List.getD_eq_getElem?_getD, List.getD_eq_getElem?_getD, h1, hr1]
    simp only [Option.getD_some]
    apply hrank r _ hr2 d hd
    simpa using hmask
  · unfold nbF at h
    rw [pk_ge ha] at h
    simp [depsOf] at h


/-! ### Running `DepGraph.new` -/

theorem inv_init (nb : Nat → List Nat) : Inv nb [] ⟨[], [], []⟩ :=
  ⟨List.nodup_nil, Ordered.nil, by simp, by simp⟩

/-- under `Meta.WF` both passes succeed; bookkeeping facts about the two states -/
theorem new_run (md : Meta) (pol : Policy) (hwf : md.WF) :
    ∃ s1 s2, visitAll (nbF md) ((srt md).length + 1) (mems md) ⟨[], [], []⟩ = .ok s1 ∧
      visitDev (nbF md) (devF md) ((srt md).length + 1) (mems md) s1 = .ok s2 ∧
      DepGraph.new md pol =
        .ok { nodes := (List.range (srt md).length).map (mkNode md pol s1 s2), topo := s2.topo } ∧
      Ext (nbF md) (srt md).length 0 [] ⟨[], [], []⟩ s1 ∧
      (∀ r ∈ mems md, r ∈ s1.visited) ∧
      (∀ x ∈ s1.visited, x ∈ s2.visited) ∧
      (∀ x ∈ s2.visited, x < (srt md).length) := by
  have H := contract1 (nb := nbF md) (n := (srt md).length) (nbF_lt md) ((srt md).length + 1)
  have hf0 : unvisited (List.range (srt md).length) (VisitState.mk [] [] []).visited
      < (srt md).length + 1 := by
    have := unvisited_le (List.range (srt md).length) []
    simp only [List.length_range] at this
    exact Nat.lt_succ_of_le this
  obtain ⟨s1, hs1, hext1, hr1⟩ := visitAll_total H (mems md) ⟨[], [], []⟩ (mems_lt md hwf) hf0
  have hf1 : unvisited (List.range (srt md).length) s1.visited < (srt md).length + 1 :=
    Nat.lt_of_le_of_lt (unvisited_mono hext1.mono) hf0
  obtain ⟨s2, hs2, hm2, hl2⟩ := visitDev_total H (devF md) (devF_lt md) (mems md) s1 hf1
  refine ⟨s1, s2, hs1, hs2, ?_, hext1, hr1, hm2, ?_⟩
  · rw [new_eq, hs1]
    simp only
    rw [hs2]
  · intro x hx
    rcases hl2 x hx with h | h
    · rcases hext1.lt x h with h' | h'
      · simp at h'
      · exact h'
    · exact h

/-! ### Node access -/

theorem node_mk {md : Meta} {pol : Policy} {s1 s2 : VisitState} {topo : List Nat} {i : Nat}
    (hi : i < (srt md).length) :
    DepGraph.node { nodes := (List.range (srt md).length).map (mkNode md pol s1 s2), topo := topo } i
      = mkNode md pol s1 s2 i := by
  unfold DepGraph.node
  simp [List.getD_eq_getElem?_getD, hi]

end Topo
end Vet
