/-
Helper lemmas for `C04_update_keeps_violations`: the keep-predicate of an imported audit row is
`true` on a violation as soon as the crate has an entry in the required-entries table, and the
table built by `allRequired` has an entry for every name of the dependency graph.
-/
import Vet.Lemmas.UpdateInv
import Vet.Lemmas.UpdateKeep
import Vet.Lemmas.PreserveRequired
namespace Vet

/-- a violation of a crate known to the required-entries table passes the keep-predicate -/
theorem impAuditPred_violation (s : Store) (modeOf : Nat → UpdateMode)
    (required : List (Nat × Option Required)) (ii n i : Nat) (a : Audit)
    (hv : isViolation a = true) (hsome : (assoc? n required).isSome = true) :
    impAuditPred s modeOf required ii n i a = true := by
  unfold impAuditPred
  simp only [hv, hsome, if_true]
  split <;> rfl

/-- every name of the graph has an entry in the table `allRequired` returns -/
theorem allRequired_isSome {dg : DepGraph} {m : Mapper} {reqs : List CSet} {s : Store}
    {modeOf : Nat → UpdateMode} {required : List (Nat × Option Required)}
    (h : allRequired dg m reqs s modeOf (dg.nodes.map (·.name)) [] = .ok required)
    (n : Nat) (hn : n ∈ dg.nodes.map (·.name)) : (assoc? n required).isSome = true := by
  obtain ⟨ro, hro⟩ := (allRequired_facts h).names n hn
  rw [hro]
  rfl

/-- the row `ri` of import `ii` in `importsUpd` -/
theorem importsUpd_row (s : Store) (modeOf : Nat → UpdateMode)
    (required : List (Nat × Option Required)) (ii : Nat) (f : AFile)
    (hf : s.imports[ii]? = some f) (ri n : Nat) (l : List Audit) (hl : f.audits[ri]? = some (n, l)) :
    ∃ k, (importsUpd s modeOf required)[ii]? = some k ∧
      k.1[ri]? = some (n, keepIdx l (impAuditPred s modeOf required ii n)) := by
  refine ⟨(f.audits.map (fun (n, l) => (n, keepIdx l (impAuditPred s modeOf required ii n))),
     f.wildcards.map (fun (n, l) => (n, keepIdx l (impWildPred s modeOf required ii n)))), ?_, ?_⟩
  · simp only [importsUpd]
    rw [List.getElem?_map, List.getElem?_zipIdx, hf]
    simp only [Option.map_some, Nat.zero_add]
  · simp only
    rw [List.getElem?_map, hl]
    simp only [Option.map_some]

/-! ### a concrete world for the satisfiability examples in `Vet/Props/C04Keep.lean` -/

/-- member `a` (name 0) depends on crates.io crate `b` (name 1) version 0; the peer serves for `b`
a fresh full audit, a fresh violation of another version and a locked violation of version 0, and
for a crate `c` (name 2) that is not in the graph a fresh and a locked violation -/
def keepViolWorld : World :=
  { table := [], md := ⟨[⟨0, 0, 0, false, [(1, 1)]⟩, ⟨1, 0, 1, true, []⟩], [0]⟩,
    store := { imports := [⟨[(1, [⟨.full 0, [1], true, true⟩, ⟨.violation [5], [1], true, true⟩,
                                  ⟨.violation [0], [0], true, false⟩]),
                             (2, [⟨.violation [5], [1], true, true⟩, ⟨.violation [5], [1], true, false⟩])], []⟩],
               locals := ⟨[], []⟩, trusted := [], publishers := [], unpublished := [],
               exemptions := [], policy := [] } }

/-- every pruning flag on, fresh imports preferred (the mode of `cargo vet prune`) -/
def keepViolPrune : UpdateMode := ⟨.preferFreshImports, true, true, true⟩

end Vet
