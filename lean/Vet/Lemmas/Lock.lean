/- Helper lemmas for the store-lock protocol model. -/
import Vet.Model.Lock
namespace Vet.Lock

/-! ### `setProc` -/

theorem setProc_procs_getElem? (s : State) (pid q : Nat) (p : Proc) :
    (setProc s pid p).procs[q]? =
      if q = pid then (s.procs[q]?).map (fun _ => p) else s.procs[q]? := by
  simp only [setProc, List.getElem?_map, List.getElem?_zipIdx, Option.map_map]
  cases s.procs[q]? with
  | none => simp
  | some a => by_cases h : q = pid <;> simp [h]

theorem procs_set {s : State} {pid : Nat} {p0 : Proc} (hp : s.procs[pid]? = some p0)
    (q : Nat) (p : Proc) :
    (setProc s pid p).procs[q]? = if q = pid then some p else s.procs[q]? := by
  rw [setProc_procs_getElem?]
  by_cases h : q = pid
  · subst h; simp [hp]
  · simp [h]

@[simp] theorem setProc_files (s : State) (pid : Nat) (p : Proc) :
    (setProc s pid p).files = s.files := rfl
@[simp] theorem setProc_holder (s : State) (pid : Nat) (p : Proc) :
    (setProc s pid p).holder = s.holder := rfl
@[simp] theorem setProc_order (s : State) (pid : Nat) (p : Proc) :
    (setProc s pid p).order = s.order := rfl

/-! ### list facts -/

theorem nodup_split_unique {α} {b b' a a' : List α} {x : α}
    (hn : (b ++ x :: a).Nodup) (h : b ++ x :: a = b' ++ x :: a') : b = b' := by
  induction b generalizing b' with
  | nil =>
    cases b' with
    | nil => rfl
    | cons y t =>
      simp only [List.nil_append, List.cons_append, List.cons.injEq] at h
      obtain ⟨rfl, rfl⟩ := h
      simp at hn
  | cons y t ih =>
    cases b' with
    | nil =>
      simp only [List.nil_append, List.cons_append, List.cons.injEq] at h
      obtain ⟨rfl, rfl⟩ := h
      simp at hn
    | cons z t' =>
      simp only [List.cons_append, List.cons.injEq] at h
      obtain ⟨rfl, h⟩ := h
      simp only [List.cons_append, List.nodup_cons] at hn
      rw [ih hn.2 h]

/-- writers among a list of pids -/
def wf (writers : List Bool) (l : List Nat) : List Nat :=
  l.filter (fun q => writers.getD q false)

theorem wf_append_singleton (writers : List Bool) (l : List Nat) (h : Nat) :
    wf writers (l ++ [h]) = wf writers l ++ (if writers.getD h false then [h] else []) := by
  simp only [wf, List.filter_append, List.filter_cons, List.filter_nil]

/-! ### the invariant -/

/-- state of the lock holder `h` and of the files; `B` is the content when `h` took the lock -/
def HolderOK (B : List Nat) (h : Nat) (ph : Proc) (f : Files) : Prop :=
  1 ≤ ph.pc ∧ ph.pc ≤ 10 ∧
  (2 ≤ ph.pc → ph.gotCfg = .full B) ∧ (3 ≤ ph.pc → ph.gotAudits = .full B) ∧
  (4 ≤ ph.pc → ph.gotImports = .full B) ∧ (5 ≤ ph.pc → ph.writer = true) ∧
  f.cfg = (if ph.pc ≤ 5 then .full B else if ph.pc ≤ 8 then .torn else .full (B ++ [h])) ∧
  f.audits = (if ph.pc ≤ 4 then .full B else if ph.pc ≤ 7 then .torn else .full (B ++ [h])) ∧
  f.imports = (if ph.pc ≤ 6 then .full B else if ph.pc ≤ 9 then .torn else .full (B ++ [h]))

structure Inv (log : List Nat) (writers : List Bool) (s : State) : Prop where
  wr : ∀ (q : Nat) (p : Proc), s.procs[q]? = some p → writers[q]? = some p.writer
  nodup : s.order.Nodup
  mem : ∀ (q : Nat) (p : Proc), s.procs[q]? = some p → (q ∈ s.order ↔ p.pc ≠ 0)
  bound : ∀ (q : Nat), q ∈ s.order → ∃ p, s.procs[q]? = some p
  hist : ∀ (before : List Nat) (q : Nat) (after : List Nat) (p : Proc), s.order = before ++ q :: after → s.procs[q]? = some p → p.pc = 11 →
    p.gotCfg = .full (log ++ wf writers before) ∧ p.gotAudits = .full (log ++ wf writers before) ∧
    p.gotImports = .full (log ++ wf writers before)
  free : s.holder = none →
    (∀ (q : Nat) (p : Proc), s.procs[q]? = some p → p.pc = 0 ∨ p.pc = 11) ∧
    s.files.cfg = .full (log ++ wf writers s.order) ∧
    s.files.audits = .full (log ++ wf writers s.order) ∧
    s.files.imports = .full (log ++ wf writers s.order)
  held : ∀ h, s.holder = some h → ∃ (done : List Nat) (ph : Proc), s.order = done ++ [h] ∧ s.procs[h]? = some ph ∧
    (∀ (q : Nat) (p : Proc), q ≠ h → s.procs[q]? = some p → p.pc = 0 ∨ p.pc = 11) ∧
    HolderOK (log ++ wf writers done) h ph s.files

theorem inv_init (log : List Nat) (writers : List Bool) : Inv log writers (init log writers) := by
  have hq : ∀ (q : Nat) (p : Proc), (init log writers).procs[q]? = some p → ∃ w, writers[q]? = some w ∧ p = newProc w := by
    intro q p h
    simp only [init, List.getElem?_map, Option.map_eq_some_iff] at h
    obtain ⟨w, hw, rfl⟩ := h
    exact ⟨w, hw, rfl⟩
  refine ⟨?_, ?_, ?_, ?_, ?_, ?_, ?_⟩
  · intro q p h
    obtain ⟨w, hw, rfl⟩ := hq q p h
    simpa [newProc] using hw
  · simp [init]
  · intro q p h
    obtain ⟨w, hw, rfl⟩ := hq q p h
    simp [init, newProc]
  · intro q h; simp [init] at h
  · intro before q after p h; simp [init] at h
  · intro _
    refine ⟨?_, ?_, ?_, ?_⟩
    · intro q p h
      obtain ⟨w, hw, rfl⟩ := hq q p h
      left; rfl
    all_goals simp [init, wf]
  · intro h hh; simp [init] at hh

/-- anyone in the critical section is the holder -/
theorem Inv.holder_of_critical {log : List Nat} {writers : List Bool} {s : State} (hI : Inv log writers s) {pid : Nat} {p : Proc}
    (hp : s.procs[pid]? = some p) (h1 : 1 ≤ p.pc) (h10 : p.pc ≤ 10) : s.holder = some pid := by
  cases hh : s.holder with
  | none =>
    have := (hI.free hh).1 pid p hp
    omega
  | some h =>
    obtain ⟨done, ph, _, _, hoth, _⟩ := hI.held h hh
    by_cases e : pid = h
    · rw [e]
    · have := hoth pid p e hp
      omega

theorem Inv.getD_writer {log : List Nat} {writers : List Bool} {s : State} (hI : Inv log writers s) {pid : Nat} {p : Proc}
    (hp : s.procs[pid]? = some p) : writers.getD pid false = p.writer := by
  rw [List.getD_eq_getElem?_getD, hI.wr pid p hp]; rfl

/-- taking the lock -/
theorem inv_acquire {log : List Nat} {writers : List Bool} {s : State} (hI : Inv log writers s) {pid : Nat} {p : Proc}
    (hp : s.procs[pid]? = some p) (hpc : p.pc = 0) (hfree : s.holder = none) :
    Inv log writers
      { setProc s pid { p with pc := 1 } with holder := some pid, order := s.order ++ [pid] } := by
  have hnot : pid ∉ s.order := fun hm => ((hI.mem pid p hp).1 hm) hpc
  obtain ⟨hall, hc, ha, hi⟩ := hI.free hfree
  refine ⟨?_, ?_, ?_, ?_, ?_, ?_, ?_⟩
  · intro q p1 h
    simp only [procs_set hp] at h
    split at h
    · next e => subst e; cases h; exact hI.wr q p hp
    · exact hI.wr q p1 h
  · show (s.order ++ [pid]).Nodup
    rw [List.nodup_append]
    refine ⟨hI.nodup, by simp, ?_⟩
    intro a ha b hb
    simp only [List.mem_singleton] at hb
    subst hb
    intro e; subst e; exact hnot ha
  · intro q p1 h
    show q ∈ s.order ++ [pid] ↔ _
    simp only [procs_set hp] at h
    split at h
    · next e => subst e; cases h; simp
    · next e =>
      rw [← hI.mem q p1 h]
      simp [e]
  · intro q h
    have h : q ∈ s.order ++ [pid] := h
    simp only [procs_set hp]
    split
    · exact ⟨_, rfl⟩
    · next e =>
      simp only [List.mem_append, List.mem_singleton, e, or_false] at h
      exact hI.bound q h
  · intro before q after p1 ho h h11
    replace ho : s.order ++ [pid] = before ++ q :: after := ho
    simp only [procs_set hp] at h
    split at h
    · cases h; simp at h11
    · next e =>
      rcases List.eq_nil_or_concat after with rfl | ⟨a', x, rfl⟩
      · have := congrArg List.getLast? ho
        simp at this
        exact absurd this.symm e
      · rw [List.concat_eq_append] at ho
        have ho' : s.order ++ [pid] = (before ++ q :: a') ++ [x] := by simpa using ho
        have := List.append_inj_left' ho' rfl
        exact hI.hist before q a' p1 this h h11
  · intro h; cases h
  · intro h hh
    have hh : some pid = some h := hh
    cases hh
    refine ⟨s.order, { p with pc := 1 }, rfl, ?_, ?_, ?_⟩
    · simp [procs_set hp]
    · intro q p1 e h
      simp only [procs_set hp, e, if_false] at h
      exact hall q p1 h
    · show HolderOK _ _ _ s.files
      simp [HolderOK, hc, ha, hi]

/-- a step of the holder that keeps the lock -/
theorem inv_internal {log : List Nat} {writers : List Bool} {s : State} (hI : Inv log writers s) {pid : Nat} {p : Proc}
    (hp : s.procs[pid]? = some p) (h1 : 1 ≤ p.pc) (h10 : p.pc ≤ 10) (p' : Proc) (f' : Files)
    (hw : p'.writer = p.writer)
    (hok : ∀ B, HolderOK B pid p s.files → HolderOK B pid p' f') :
    Inv log writers { setProc s pid p' with files := f' } := by
  have hh := hI.holder_of_critical hp h1 h10
  obtain ⟨done, ph, hord, hph, hoth, hH⟩ := hI.held pid hh
  rw [hp] at hph; cases hph
  have hH' := hok _ hH
  refine ⟨?_, hI.nodup, ?_, ?_, ?_, ?_, ?_⟩
  · intro q p1 h
    simp only [procs_set hp] at h
    split at h
    · next e => subst e; cases h; rw [hw]; exact hI.wr q p hp
    · exact hI.wr q p1 h
  · intro q p1 h
    show q ∈ s.order ↔ _
    simp only [procs_set hp] at h
    split at h
    · next e =>
      subst e; cases h
      rw [hI.mem q p hp]
      have := hH'.1
      omega
    · exact hI.mem q p1 h
  · intro q h
    have h : q ∈ s.order := h
    simp only [procs_set hp]
    split
    · exact ⟨_, rfl⟩
    · exact hI.bound q h
  · intro before q after p1 ho h h11
    replace ho : s.order = before ++ q :: after := ho
    simp only [procs_set hp] at h
    split at h
    · cases h
      have := hH'.2.1
      omega
    · exact hI.hist before q after p1 ho h h11
  · intro h
    have h : s.holder = none := h
    rw [hh] at h; cases h
  · intro h hh'
    have hh' : s.holder = some h := hh'
    rw [hh] at hh'; cases hh'
    refine ⟨done, p', hord, ?_, ?_, hH'⟩
    · simp [procs_set hp]
    · intro q p1 e h
      simp only [procs_set hp, e, if_false] at h
      exact hoth q p1 e h

/-- releasing the lock -/
theorem inv_release {log : List Nat} {writers : List Bool} {s : State} (hI : Inv log writers s) {pid : Nat} {p : Proc}
    (hp : s.procs[pid]? = some p) (hrel : p.pc = 10 ∨ (p.pc = 4 ∧ p.writer = false)) :
    Inv log writers { setProc s pid { p with pc := 11 } with holder := none } := by
  have hh := hI.holder_of_critical hp (by omega) (by omega)
  obtain ⟨done, ph, hord, hph, hoth, hH⟩ := hI.held pid hh
  rw [hp] at hph; cases hph
  have hn : (done ++ pid :: []).Nodup := by
    have := hI.nodup; rwa [hord] at this
  obtain ⟨_, _, hg2, hg3, hg4, hw5, hfc, hfa, hfi⟩ := hH
  refine ⟨?_, hI.nodup, ?_, ?_, ?_, ?_, ?_⟩
  · intro q p1 h
    simp only [procs_set hp] at h
    split at h
    · next e => subst e; cases h; exact hI.wr q p hp
    · exact hI.wr q p1 h
  · intro q p1 h
    show q ∈ s.order ↔ _
    simp only [procs_set hp] at h
    split at h
    · next e =>
      subst e; cases h
      rw [hI.mem q p hp]
      simp only [ne_eq, Nat.reduceEqDiff, not_false_eq_true, iff_true]
      omega
    · exact hI.mem q p1 h
  · intro q h
    have h : q ∈ s.order := h
    simp only [procs_set hp]
    split
    · exact ⟨_, rfl⟩
    · exact hI.bound q h
  · intro before q after p1 ho h h11
    replace ho : s.order = before ++ q :: after := ho
    simp only [procs_set hp] at h
    split at h
    · next e =>
      subst e; cases h
      rw [hord] at ho
      have hb : done = before := nodup_split_unique hn ho
      subst hb
      exact ⟨hg2 (by omega), hg3 (by omega), hg4 (by omega)⟩
    · exact hI.hist before q after p1 ho h h11
  · intro _
    refine ⟨?_, ?_⟩
    · intro q p1 h
      simp only [procs_set hp] at h
      split at h
      · cases h; right; rfl
      · next e => exact hoth q p1 e h
    · show s.files.cfg = .full (log ++ wf writers s.order) ∧
        s.files.audits = .full (log ++ wf writers s.order) ∧
        s.files.imports = .full (log ++ wf writers s.order)
      rw [hord, wf_append_singleton, hI.getD_writer hp, hfc, hfa, hfi]
      rcases hrel with h10 | ⟨h4, hwf⟩
      · simp [h10, hw5 (by omega)]
      · simp [h4, hwf]
  · intro h hh'; cases hh'

theorem inv_step {log : List Nat} {writers : List Bool} {s : State} (hI : Inv log writers s)
    (pid : Nat) : Inv log writers ((step s pid).getD s) := by
  unfold step
  split
  · exact hI
  · next p hp =>
    split
    · next h0 =>
      split
      · next hf => exact inv_acquire hI hp h0 hf
      · exact hI
    · next hk =>
      refine inv_internal hI hp (by omega) (by omega) _ s.files rfl ?_
      intro B h
      simp_all [HolderOK]
    · next hk =>
      refine inv_internal hI hp (by omega) (by omega) _ s.files rfl ?_
      intro B h
      simp_all [HolderOK]
    · next hk =>
      refine inv_internal hI hp (by omega) (by omega) _ s.files rfl ?_
      intro B h
      simp_all [HolderOK]
    · next hk =>
      split
      · next hw =>
        refine inv_internal hI hp (by omega) (by omega) _ _ rfl ?_
        intro B h
        simp_all [HolderOK]
      · next hw =>
        exact inv_release hI hp (Or.inr ⟨hk, by simpa using hw⟩)
    · next hk =>
      refine inv_internal hI hp (by omega) (by omega) _ _ rfl ?_
      intro B h
      simp_all [HolderOK]
    · next hk =>
      refine inv_internal hI hp (by omega) (by omega) _ _ rfl ?_
      intro B h
      simp_all [HolderOK]
    · next hk =>
      refine inv_internal hI hp (by omega) (by omega) _ _ rfl ?_
      intro B h
      simp_all [HolderOK, extend]
    · next hk =>
      refine inv_internal hI hp (by omega) (by omega) _ _ rfl ?_
      intro B h
      simp_all [HolderOK, extend]
    · next hk =>
      refine inv_internal hI hp (by omega) (by omega) _ _ rfl ?_
      intro B h
      simp_all [HolderOK, extend]
    · next hk => exact inv_release hI hp (Or.inl hk)
    · exact hI

theorem inv_run {log : List Nat} {writers : List Bool} (sched : List Nat) {s : State}
    (hI : Inv log writers s) : Inv log writers (run s sched) := by
  induction sched generalizing s with
  | nil => exact hI
  | cons pid rest ih => exact ih (inv_step hI pid)

theorem inv_reachable {log : List Nat} {writers : List Bool} (sched : List Nat) :
    Inv log writers (run (init log writers) sched) := inv_run sched (inv_init log writers)

/-! ### consequences of the invariant -/

theorem Inv.mutex {log : List Nat} {writers : List Bool} {s : State} (hI : Inv log writers s)
    {p q : Nat} {pp pq : Proc} (hp : s.procs[p]? = some pp) (hq : s.procs[q]? = some pq)
    (cp : inCritical pp = true) (cq : inCritical pq = true) : p = q := by
  simp only [inCritical, Bool.and_eq_true, decide_eq_true_eq] at cp cq
  have h1 := hI.holder_of_critical hp cp.1 cp.2
  have h2 := hI.holder_of_critical hq cq.1 cq.2
  rw [h1] at h2
  exact Option.some.inj h2

/-- the holder's view -/
theorem Inv.holder_ok {log : List Nat} {writers : List Bool} {s : State} (hI : Inv log writers s)
    {p : Nat} {pp : Proc} (hp : s.procs[p]? = some pp) (h1 : 1 ≤ pp.pc) (h10 : pp.pc ≤ 10) :
    ∃ done, s.order = done ++ [p] ∧ HolderOK (log ++ wf writers done) p pp s.files := by
  obtain ⟨done, ph, hord, hph, _, hH⟩ := hI.held p (hI.holder_of_critical hp h1 h10)
  rw [hp] at hph; cases hph
  exact ⟨done, hord, hH⟩

theorem Inv.pc_le {log : List Nat} {writers : List Bool} {s : State} (hI : Inv log writers s)
    {p : Nat} {pp : Proc} (hp : s.procs[p]? = some pp) : pp.pc ≤ 11 := by
  cases hh : s.holder with
  | none => have := (hI.free hh).1 p pp hp; omega
  | some h =>
    obtain ⟨done, ph, _, hph, hoth, hH⟩ := hI.held h hh
    by_cases e : p = h
    · subst e; rw [hp] at hph; cases hph; have := hH.2.1; omega
    · have := hoth p pp e hp; omega

/-- everything loaded is the content at lock time -/
theorem Inv.loaded {log : List Nat} {writers : List Bool} {s : State} (hI : Inv log writers s)
    {p : Nat} {pp : Proc} (hp : s.procs[p]? = some pp) (hpc : 4 ≤ pp.pc) :
    ∃ before after, s.order = before ++ p :: after ∧
      pp.gotCfg = .full (log ++ wf writers before) ∧
      pp.gotAudits = .full (log ++ wf writers before) ∧
      pp.gotImports = .full (log ++ wf writers before) := by
  by_cases h10 : pp.pc ≤ 10
  · obtain ⟨done, hord, hH⟩ := hI.holder_ok hp (by omega) h10
    obtain ⟨_, _, hg2, hg3, hg4, _⟩ := hH
    exact ⟨done, [], hord, hg2 (by omega), hg3 (by omega), hg4 (by omega)⟩
  · have h11 : pp.pc = 11 := by have := hI.pc_le hp; omega
    have hm : p ∈ s.order := (hI.mem p pp hp).2 (by omega)
    obtain ⟨before, after, hord⟩ := List.append_of_mem hm
    exact ⟨before, after, hord, hI.hist before p after pp hord hp h11⟩

theorem Inv.committed_eq {log : List Nat} {writers : List Bool} {s : State}
    (hI : Inv log writers s) (hfree : s.holder = none) : committed s = wf writers s.order := by
  unfold committed wf
  apply List.filter_congr
  intro q hq
  obtain ⟨p, hp⟩ := hI.bound q hq
  have h0 : p.pc ≠ 0 := (hI.mem q p hp).1 hq
  have h11 : p.pc = 11 := by have := (hI.free hfree).1 q p hp; omega
  simp [hp, h11, hI.wr q p hp]

end Vet.Lock
