/- Helper lemmas for the store-lock protocol model. -/
import Vet.Model.Lock
namespace Vet.Lock
end Vet.Lock
