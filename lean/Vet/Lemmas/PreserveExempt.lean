/- The exemption table under an update: each new exemption is a narrowed old one, and an
exemption used for a criterion keeps that criterion. -/
import Vet.Lemmas.PreserveStore
import Vet.Lemmas.PreserveCrit
namespace Vet

/-- the criteria an exemption keeps -/
def usefulSet (prune : Bool) (req : Option Required) (idx : Nat) (original : CSet) : CSet :=
  let useful0 := match req with
    | some r => (r.get? (.exemption idx)).getD 0
    | none => original
  if prune then useful0 else useful0 ||| original

theorem updateExemption_eq {m : Mapper} {prune : Bool} {req : Option Required} {idx : Nat} {x : Exemption}
    {original : CSet} (ho : m.fromList x.criteria = .ok original) :
    updateExemption m prune req idx x =
      if usefulSet prune req idx original = 0 then .ok []
      else if !x.suggest && !(CSet.containsSet original (usefulSet prune req idx original)) then
        .ok [⟨x.version, m.minimal (CSet.clear m.n (usefulSet prune req idx original) original), true⟩,
             ⟨x.version, m.minimal original, x.suggest⟩]
      else .ok [⟨x.version, m.minimal (usefulSet prune req idx original), x.suggest⟩] := by
  unfold updateExemption
  rw [ho]
  rfl

/-- the recorded criteria of exemption `idx` are criteria the exemption has -/
def ExSound (req : Option Required) (idx : Nat) (original : CSet) : Prop :=
  ∀ r, req = some r → ∀ su, r.get? (.exemption idx) = some su →
    ∀ c, su.testBit c = true → original.testBit c = true

theorem usefulSet_sub {prune : Bool} {req : Option Required} {idx : Nat} {original : CSet}
    (H : ExSound req idx original) :
    ∀ j, (usefulSet prune req idx original).testBit j = true → original.testBit j = true := by
  have h0 : ∀ j, (match req with
      | some r => (r.get? (.exemption idx)).getD 0
      | none => original).testBit j = true → original.testBit j = true := by
    intro j hj
    cases req with
    | none => exact hj
    | some r =>
      simp only at hj
      cases hg : r.get? (.exemption idx) with
      | none => rw [hg] at hj; simp at hj
      | some su =>
        rw [hg] at hj
        exact H r rfl su hg j hj
  intro j hj
  unfold usefulSet at hj
  cases prune with
  | true => exact h0 j (by simpa using hj)
  | false =>
    simp only [Bool.false_eq_true, if_false, Nat.testBit_or, Bool.or_eq_true] at hj
    rcases hj with hj | hj
    · exact h0 j hj
    · exact hj

theorem usefulSet_has {prune : Bool} {r : Required} {idx : Nat} {original su : CSet}
    (hg : r.get? (.exemption idx) = some su) {c : Nat} (hc : su.testBit c = true) :
    (usefulSet prune (some r) idx original).testBit c = true := by
  unfold usefulSet
  simp only [hg, Option.getD_some]
  cases prune with
  | true => simpa using hc
  | false => simp [Nat.testBit_or, hc]

theorem updateExemption_spec {t : Table} {m : Mapper} (hm : Mapper.new t = .ok m) {prune : Bool}
    {req : Option Required} {idx : Nat} {x : Exemption} {original : CSet}
    (ho : m.fromList x.criteria = .ok original) (H : ExSound req idx original) :
    ∃ l', updateExemption m prune req idx x = .ok l' ∧
      (∀ x' ∈ l', x'.version = x.version ∧ ∃ cs', m.fromList x'.criteria = .ok cs' ∧
        ∀ j, cs'.testBit j = true → original.testBit j = true) ∧
      (∀ r su c, req = some r → r.get? (.exemption idx) = some su → su.testBit c = true →
        ∃ x' ∈ l', x'.version = x.version ∧ ∃ cs', m.fromList x'.criteria = .ok cs' ∧
          cs'.testBit c = true) := by
  rw [updateExemption_eq ho]
  have hsub := usefulSet_sub (prune := prune) H
  have hcon : CSet.containsSet original (usefulSet prune req idx original) = true :=
    pres_containsSet_iff.2 hsub
  by_cases hz : usefulSet prune req idx original = 0
  · refine ⟨[], by rw [if_pos hz], ?_, ?_⟩
    · intro x' hx'
      cases hx'
    intro r su c hr hg hc
    subst hr
    have := usefulSet_has (prune := prune) (original := original) hg hc
    rw [hz] at this
    simp at this
  · obtain ⟨cs', hcs', hsup, hinf⟩ := fromList_minimal hm (usefulSet prune req idx original)
    refine ⟨[⟨x.version, m.minimal (usefulSet prune req idx original), x.suggest⟩], ?_, ?_, ?_⟩
    · rw [if_neg hz, hcon]
      simp
    · intro x' hx'
      rw [List.mem_singleton] at hx'
      subst hx'
      refine ⟨rfl, cs', hcs', ?_⟩
      intro j hj
      obtain ⟨i, _, hui, hij⟩ := hinf j hj
      exact C05_fromList_closed t m hm _ _ ho i j (hsub i hui) hij
    · intro r su c hr hg hc
      subst hr
      have hu := usefulSet_has (prune := prune) (original := original) hg hc
      have hcn : c < m.n := fromList_bit_lt hm ho (hsub c hu)
      exact ⟨_, List.mem_singleton.2 rfl, rfl, cs', hcs', hsup c hcn hu⟩

/-! ### `updateExemptions` -/

theorem updateExemptions_members {m : Mapper} {prune : Bool} {req : Option Required}
    {L : List (Exemption × Nat)} {l : List Exemption} (h : updateExemptions m prune req L = .ok l) :
    (∀ x' ∈ l, ∃ y ∈ L, ∃ l', updateExemption m prune req y.2 y.1 = .ok l' ∧ x' ∈ l') ∧
    (∀ y ∈ L, ∃ l', updateExemption m prune req y.2 y.1 = .ok l' ∧ ∀ x' ∈ l', x' ∈ l) := by
  induction L generalizing l with
  | nil =>
    simp only [updateExemptions, Except.ok.injEq] at h
    subst h
    constructor
    · intro x' hx'
      cases hx'
    · intro y hy
      cases hy
  | cons y rest ih =>
    obtain ⟨x, i⟩ := y
    simp only [updateExemptions] at h
    split at h
    · cases h
    · rename_i a ha
      split at h
      · cases h
      · rename_i b hb
        cases h
        obtain ⟨ih1, ih2⟩ := ih hb
        constructor
        · intro x' hx'
          rcases List.mem_append.1 hx' with hx' | hx'
          · exact ⟨(x, i), List.mem_cons_self, a, ha, hx'⟩
          · obtain ⟨y, hy, l', hl', hm'⟩ := ih1 x' hx'
            exact ⟨y, List.mem_cons_of_mem _ hy, l', hl', hm'⟩
        · intro y hy
          rcases List.mem_cons.1 hy with rfl | hy
          · exact ⟨a, ha, fun x' hx' => List.mem_append.2 (Or.inl hx')⟩
          · obtain ⟨l', hl', hall⟩ := ih2 y hy
            exact ⟨l', hl', fun x' hx' => List.mem_append.2 (Or.inr (hall x' hx'))⟩

/-! ### `exemptionTable` with unique keys -/

theorem exemptionTable_keys {m : Mapper} {modeOf : Nat → UpdateMode} {reqOf : Nat → Option Required}
    {t ex0 : List (Nat × List Exemption)} (h : exemptionTable m modeOf reqOf t = .ok ex0) :
    ∀ n ∈ ex0.map (·.1), n ∈ t.map (·.1) := by
  induction t generalizing ex0 with
  | nil =>
    simp only [exemptionTable, Except.ok.injEq] at h
    subst h
    intro n hn
    cases hn
  | cons y rest ih =>
    obtain ⟨n0, xs⟩ := y
    simp only [exemptionTable] at h
    split at h
    · cases h
    · rename_i l hl
      split at h
      · cases h
      · rename_i t' ht'
        cases h
        intro n hn
        split at hn
        · exact List.mem_cons_of_mem _ (ih ht' n hn)
        · simp only [List.map_cons, List.mem_cons] at hn ⊢
          rcases hn with rfl | hn
          · exact Or.inl rfl
          · exact Or.inr (ih ht' n hn)

theorem exemptionTable_getL_nodup {m : Mapper} {modeOf : Nat → UpdateMode} {reqOf : Nat → Option Required}
    {t ex0 : List (Nat × List Exemption)} (h : exemptionTable m modeOf reqOf t = .ok ex0)
    (hnd : (t.map (·.1)).Nodup) (name : Nat) :
    updateExemptions m (modeOf name).pruneExemptions (reqOf name) (getL name t).zipIdx =
      .ok (getL name ex0) := by
  induction t generalizing ex0 with
  | nil =>
    simp only [exemptionTable, Except.ok.injEq] at h
    subst h
    rfl
  | cons y rest ih =>
    obtain ⟨n0, xs⟩ := y
    simp only [List.map_cons, List.nodup_cons] at hnd
    simp only [exemptionTable] at h
    split at h
    · cases h
    · rename_i l hl
      split at h
      · cases h
      · rename_i t' ht'
        cases h
        by_cases hn : n0 = name
        · subst hn
          have hnone : assoc? n0 t' = none :=
            assoc?_none_of_not_mem (fun hmem => hnd.1 (exemptionTable_keys ht' n0 hmem))
          have hget : getL n0 ((n0, xs) :: rest) = xs := by simp [getL, assoc?]
          rw [hget, hl]
          congr 1
          split
          · rename_i hemp
            simp only [getL, hnone, Option.getD_none]
            exact (List.isEmpty_iff.1 hemp)
          · simp [getL, assoc?]
        · have hget : getL name ((n0, xs) :: rest) = getL name rest := by simp [getL, assoc?, hn]
          rw [hget, ih ht' hnd.2]
          congr 1
          split
          · rfl
          · simp [getL, assoc?, hn]

/-! ### no fresh exemptions outside regenerate mode -/

theorem pres_get?_of_mem {r : Required} {e : ReqEntry} {c : CSet} (h : (e, c) ∈ r) : ∃ s, r.get? e = some s := by
  induction r with
  | nil => cases h
  | cons y rest ih =>
    obtain ⟨e0, s0⟩ := y
    simp only [Required.get?]
    by_cases he : e0 = e
    · exact ⟨s0, by rw [if_pos he]⟩
    · rw [if_neg he]
      rcases List.mem_cons.1 h with heq | hm
      · cases heq
        exact absurd rfl he
      · exact ih hm

theorem freshExemptions_eq_nil {m : Mapper} {r : Required}
    (h : ∀ v, r.get? (.freshExemption v) = none) : freshExemptions m r = [] := by
  unfold freshExemptions
  rw [List.filterMap_eq_nil_iff]
  rintro ⟨e, c⟩ hmem
  cases e with
  | freshExemption v =>
    obtain ⟨s, hs⟩ := pres_get?_of_mem hmem
    rw [h v] at hs
    cases hs
  | _ => rfl

theorem withFresh_eq {m : Mapper} {required : List (Nat × Option Required)} {ex0 : List (Nat × List Exemption)}
    (h : ∀ x ∈ required, ∀ r, x.2 = some r → ∀ v, r.get? (.freshExemption v) = none) :
    withFresh m required ex0 = ex0 := by
  unfold withFresh
  induction required generalizing ex0 with
  | nil => rfl
  | cons x rest ih =>
    obtain ⟨n, ro⟩ := x
    rw [List.foldl_cons]
    have hrest := fun y hy => h y (List.mem_cons_of_mem _ hy)
    cases ro with
    | none => exact ih hrest
    | some r =>
      show List.foldl _ (addFresh ex0 n (freshExemptions m r)) rest = ex0
      rw [freshExemptions_eq_nil (h (n, some r) List.mem_cons_self r rfl)]
      have : addFresh ex0 n [] = ex0 := by unfold addFresh; rfl
      rw [this]
      exact ih hrest

end Vet
