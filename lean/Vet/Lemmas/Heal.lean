/- Helper lemmas for C17 healing at the level of `resolve` (Vet/Props/C17Heal.lean): monotonicity of
certifying records under appended local audits, concatenation of chains, the parts of two
`resolve` runs that only differ in the store's audits, and the reading of a failed pair. -/
import Vet.Props.C17
import Vet.Props.Resolve
import Vet.Props.C05
import Vet.Spec.Demand
namespace Vet

open Vet.Sug

/-! ### records of a store with appended local audits -/

theorem allAudits_mono {s s' : Store} (himp : s'.imports = s.imports) {name : Nat}
    {extra : List Audit}
    (haud : getL name s'.locals.audits = getL name s.locals.audits ++ extra)
    {x : Option Nat × Nat × Audit} (h : x ∈ allAudits s name) : x ∈ allAudits s' name := by
  unfold allAudits at h ⊢
  rw [himp, haud, List.zipIdx_append, List.map_append]
  rcases List.mem_append.1 h with h | h
  · exact List.mem_append_left _ h
  · exact List.mem_append_right _ (List.mem_append_left _ h)

theorem allWildcards_eq {s s' : Store} (himp : s'.imports = s.imports)
    (hw : s'.locals.wildcards = s.locals.wildcards) (name : Nat) :
    allWildcards s' name = allWildcards s name := by
  unfold allWildcards
  rw [himp, hw]

/-- every certifying record of `s` is one of `s'` (same origin) when `s'` only appends local audits -/
theorem CertEdge.extend {s s' : Store} (himp : s'.imports = s.imports)
    (hw : s'.locals.wildcards = s.locals.wildcards) (htr : s'.trusted = s.trusted)
    (hpub : s'.publishers = s.publishers) (hun : s'.unpublished = s.unpublished)
    (hex : s'.exemptions = s.exemptions) {name : Nat} {extra : List Audit}
    (haud : getL name s'.locals.audits = getL name s.locals.audits ++ extra)
    {m : Mapper} {c : Nat} {a b : Option Nat} {o : Origin}
    (h : CertEdge s m name c a o b) : CertEdge s' m name c a o b := by
  cases h with
  | full hm hk hc hb => exact CertEdge.full (allAudits_mono himp haud hm) hk hc hb
  | delta hm hk hc hb => exact CertEdge.delta (allAudits_mono himp haud hm) hk hc hb
  | wildcard hm hp hg hc hb =>
    exact CertEdge.wildcard (by rw [allWildcards_eq himp hw]; exact hm) (by rw [hpub]; exact hp)
      hg hc hb
  | trusted hm hp hg hc hb =>
    exact CertEdge.trusted (by rw [htr]; exact hm) (by rw [hpub]; exact hp) hg hc hb
  | unpublished hm hc => exact CertEdge.unpublished (by rw [hun]; exact hm) hc
  | exemption hm hc hb => exact CertEdge.exemption (by rw [hex]; exact hm) hc hb

/-- the step spelled by a local audit of `s` is a certifying record -/
theorem CertEdge.of_local {s : Store} {m : Mapper} {name c j : Nat} {a : Audit} {cs : CSet}
    (hm : (none, j, a) ∈ allAudits s name) (hc : m.fromList a.criteria = .ok cs)
    (hb : cs.testBit c = true) {f : Option Nat} {t : Nat}
    (hk : (a.kind = .full t ∧ f = none) ∨ (∃ f', a.kind = .delta f' t ∧ f = some f')) :
    CertEdge s m name c f (auditOrigin none j a) (some t) := by
  rcases hk with ⟨hk, rfl⟩ | ⟨f', hk, rfl⟩
  · exact CertEdge.full hm hk hc hb
  · exact CertEdge.delta hm hk hc hb

/-! ### `CertPath` -/

theorem CertPath.append {s : Store} {m : Mapper} {name c : Nat} {a b d : Option Nat}
    {p q : List Origin} (h₁ : CertPath s m name c a p b) (h₂ : CertPath s m name c b q d) :
    CertPath s m name c a (p ++ q) d := by
  induction h₁ with
  | nil => exact h₂
  | cons he _ ih => exact CertPath.cons he (ih h₂)

theorem CertPath.mono {s s' : Store} {m : Mapper} {name c : Nat}
    (hedge : ∀ a o b, CertEdge s m name c a o b → CertEdge s' m name c a o b)
    {a b : Option Nat} {p : List Origin} (h : CertPath s m name c a p b) :
    CertPath s' m name c a p b := by
  induction h with
  | nil => exact CertPath.nil _
  | cons he _ ih => exact CertPath.cons (hedge _ _ _ he) ih

/-! ### the parts of `resolve` that do not read the audits -/

theorem resolve_parts {w : World} {r : Report} (h : resolve w = .ok r) :
    DepGraph.new w.md w.store.policy = .ok r.graph ∧ Mapper.new w.table = .ok r.mapper ∧
      resolveRequirements r.graph w.store.policy r.mapper = .ok r.requirements := by
  unfold resolve at h
  split at h
  · cases h
  · rename_i hg
    split at h
    · cases h
    · rename_i hm
      split at h
      · cases h
      · rename_i hreq
        split at h
        · cases h
        · simp only [Except.ok.injEq] at h
          subst h
          exact ⟨hg, hm, hreq⟩

theorem resolve_shared {w : World} {s' : Store} (hp : s'.policy = w.store.policy) {r r' : Report}
    (h : resolve w = .ok r) (h' : resolve { w with store := s' } = .ok r') :
    r'.graph = r.graph ∧ r'.mapper = r.mapper ∧ r'.requirements = r.requirements := by
  obtain ⟨hg, hm, hreq⟩ := resolve_parts h
  obtain ⟨hg', hm', hreq'⟩ := resolve_parts h'
  simp only [hp] at hg' hm' hreq'
  have eg : r'.graph = r.graph := (Except.ok.inj (hg.symm.trans hg')).symm
  have em : r'.mapper = r.mapper := (Except.ok.inj (hm.symm.trans hm')).symm
  rw [eg, em] at hreq'
  exact ⟨eg, em, (Except.ok.inj (hreq.symm.trans hreq')).symm⟩

/-! ### reading a failed pair -/

/-- a required pair without a chain is reported, and the recorded search failed -/
theorem failed_pair {w : World} {r : Report} (h : resolve w = .ok r)
    {fs : List (Nat × CSet)} (hf : r.conclusion = .failVet fs)
    {i : Nat} {p : PkgNode} (hp : r.graph.nodes[i]? = some p) (htp : p.thirdParty = true)
    {c : Nat} (hc : r.required i c) (hno : ¬ CertChain w.store r.mapper p.name c p.ver) :
    ∃ bits g fr ft, (i, bits) ∈ fs ∧ bits.testBit c = true ∧
      build w.store r.mapper p.name = .ok (.graph g) ∧
      r.results[i]? = some (.searched (searchAll r.mapper g p.ver)) ∧
      (searchAll r.mapper g p.ver)[c]? = some (.fail fr ft) ∧
      search g c p.ver .preferExemptions = .fail fr ft := by
  obtain ⟨acc, v⟩ := resolve_view h
  have hf' := hf
  rw [v.conclusion] at hf'
  obtain ⟨hv, -⟩ := concl_failVet hf'
  have hx := v.item_of_node hp
  obtain ⟨g, hb, hfp⟩ := v.graph_of_no_violation hv hx htp
  have hb' : build w.store r.mapper p.name = .ok (.graph g) := hb
  have hfp' : firstPanic (searchAll r.mapper g p.ver) = none := hfp
  have hbit : (classOf r.mapper g p (r.requirements.getD i 0)).2.2.testBit c = true :=
    (classOf_failures_testBit _ hb' hfp' c).2 ⟨hc, hno⟩
  have hmem : (i, (classOf r.mapper g p (r.requirements.getD i 0)).2.2) ∈ fs := by
    rw [C02_failures_exact w r h fs hf]
    refine ⟨p, hp, htp, ?_, fun c' => classOf_failures_testBit _ hb' hfp' c'⟩
    intro h0
    rw [h0] at hbit
    simp at hbit
  have hres : r.results[i]? = some (.searched (searchAll r.mapper g p.ver)) := by
    rw [v.results_eq, List.getElem?_map, v.items_getElem? hp]
    simp only [Option.map_some, resOf, htp, hb', Bool.not_true, Bool.false_eq_true, if_false]
  have hget : (searchAll r.mapper g p.ver)[c]? = some (search g c p.ver .preferExemptions) := by
    unfold searchAll
    rw [List.getElem?_map, List.getElem?_range hc.1]
    rfl
  rcases search_cases g c p.ver with ⟨path, hs⟩ | ⟨fr, ft, hs⟩ | ⟨e, hs⟩
  · exact absurd ⟨_, search_ok_certPath hb' hs⟩ hno
  · exact ⟨_, g, fr, ft, hmem, hbit, hb', hres, hget.trans (congrArg some hs), hs⟩
  · exact absurd hs (search_no_panic g c p.ver (by decide) e)

/-- a failed search's reachable sets are joined to the ends by chains of certifying records -/
theorem fail_sets_certPath {s : Store} {m : Mapper} {name : Nat} {g : Graph}
    (hb : build s m name = .ok (.graph g)) {c v : Nat} {fr ft : List (Option Nat)}
    (hs : search g c v .preferExemptions = .fail fr ft) :
    (∀ x ∈ fr, ∃ p, CertPath s m name c none p x) ∧
    (∀ x ∈ ft, ∃ p, CertPath s m name c x p (some v)) := by
  obtain ⟨hr, ht⟩ := search_fail_sets hs
  constructor
  · intro x hx
    obtain ⟨p₁, l₁, w₁⟩ := hr x hx
    obtain ⟨p₃, l₃, w₃⟩ := Walk.mirror (by decide) w₁
    exact ⟨_, walk_certPath hb w₃⟩
  · intro x hx
    obtain ⟨p₂, l₂, w₂⟩ := ht x hx
    exact ⟨_, walk_certPath hb w₂⟩

/-! ### `failuresOf`-style membership -/

theorem getD_of_getElem? {α : Type} {l : List α} {i : Nat} {a d : α} (h : l[i]? = some a) :
    l.getD i d = a := by
  rw [List.getD_eq_getElem?_getD, h]
  rfl

end Vet
