/- Bridge between the search level (`Walk` on the built graph, mode `.preferExemptions`) and the
record level (`CertPath`), and the three-way reading of a `search` outcome. -/
import Vet.Props.Search
import Vet.Props.Build
import Vet.Model.Resolve
import Vet.Spec.Cert
namespace Vet

theorem usable_prefer (c : Nat) (e : Edge) : usable .preferExemptions c e = e.crit.testBit c := by
  simp [usable]

theorem mem_backward {g : Graph} {b : Option Nat} {e : Edge} (h : e ∈ g.backward b) :
    ∃ t ∈ g.edges, t.dst = b ∧ e = ⟨t.src, t.crit, t.origin, t.fresh⟩ := by
  unfold Graph.backward at h
  obtain ⟨t, ht, rfl⟩ := List.mem_map.1 h
  obtain ⟨ht1, ht2⟩ := List.mem_filter.1 ht
  exact ⟨t, ht1, by simpa using ht2, rfl⟩

theorem backward_of_mem {g : Graph} {t : Triple} (h : t ∈ g.edges) :
    (⟨t.src, t.crit, t.origin, t.fresh⟩ : Edge) ∈ g.backward t.dst := by
  unfold Graph.backward
  exact List.mem_map.2 ⟨t, List.mem_filter.2 ⟨h, by simp⟩, rfl⟩

/-- a step of the backward search in `.preferExemptions` mode is a certified record -/
theorem step_certEdge {s : Store} {m : Mapper} {name : Nat} {g : Graph}
    (hb : build s m name = .ok (.graph g)) {c : Nat} {b d : Option Nat} {o : Origin} {k : Nat}
    (st : Step g.backward .preferExemptions c b o k d) : CertEdge s m name c d o b := by
  cases st with
  | edge he hu =>
    obtain ⟨t, ht, rfl, rfl⟩ := mem_backward he
    rw [usable_prefer] at hu
    exact build_sound s m name g hb t ht c hu
  | fresh hm => cases hm

/-- (a) a backward walk, read in reverse, is a chain of certifying records -/
theorem walk_certPath {s : Store} {m : Mapper} {name : Nat} {g : Graph}
    (hb : build s m name = .ok (.graph g)) {c : Nat} {a b : Option Nat} {p : List Origin} {l : Nat}
    (w : Walk g.backward .preferExemptions c a p l b) : CertPath s m name c b p.reverse a := by
  induction w with
  | nil => exact CertPath.nil _
  | snoc _ st ih =>
    rw [List.reverse_append]
    exact CertPath.cons (step_certEdge hb st) ih

/-- (b) a chain of certifying records, read in reverse, is a backward walk -/
theorem certPath_walk {s : Store} {m : Mapper} {name : Nat} {g : Graph}
    (hb : build s m name = .ok (.graph g)) {c : Nat} {a b : Option Nat} {p : List Origin}
    (cp : CertPath s m name c a p b) :
    ∃ l, Walk g.backward .preferExemptions c b p.reverse l a := by
  induction cp with
  | nil a => exact ⟨0, Walk.nil a⟩
  | cons he _ ih =>
    obtain ⟨l, w⟩ := ih
    obtain ⟨t, ht, rfl, rfl, rfl, hc⟩ := build_complete s m name g hb c _ _ _ he
    have st : Step g.backward .preferExemptions c t.dst t.origin
        (edgeCaveat .preferExemptions ⟨t.src, t.crit, t.origin, t.fresh⟩) t.src :=
      Step.edge (e := ⟨t.src, t.crit, t.origin, t.fresh⟩) (backward_of_mem ht)
        (by rw [usable_prefer]; exact hc)
    rw [List.reverse_cons]
    exact ⟨_, Walk.snoc w st⟩

/-- (d) a walk of level at most 1 uses no exemption -/
theorem walk_level_no_exemption {adj : Option Nat → List Edge} {c : Nat} {a b : Option Nat}
    {p : List Origin} {l : Nat} (w : Walk adj .preferExemptions c a p l b) (hl : l ≤ 1) :
    ∀ o ∈ p, o.isExemption = false := by
  induction w with
  | nil => intro o ho; cases ho
  | snoc _ st ih =>
    rename_i l' k _
    intro o ho
    rcases List.mem_append.1 ho with ho | ho
    · exact ih (by omega) o ho
    · rw [List.mem_singleton] at ho
      subst ho
      cases st with
      | edge he hu =>
        rename_i e
        cases ho' : e.origin with
        | exemption i =>
          exfalso
          have : edgeCaveat .preferExemptions e = 2 := by simp [edgeCaveat, ho']
          omega
        | _ => rfl
      | fresh hm => cases hm

/-! ### reading a `search` outcome -/

theorem search_ok {g : Graph} {c v : Nat} {path : List Origin}
    (h : search g c v .preferExemptions = .ok path) :
    ∃ l, Walk g.backward .preferExemptions c (some v) path l none ∧
      ∀ p' l', Walk g.backward .preferExemptions c (some v) p' l' none → l ≤ l' := by
  unfold search at h
  split at h
  · rename_i p hp
    cases h
    exact search_minimax g.backward c (some v) none .preferExemptions (searchFuel g) path
      (by simpa only [searchForPath, initQueue, if_true] using hp)
  · cases h
  · rw [if_neg (by decide)] at h
    split at h <;> cases h

theorem search_fail {g : Graph} {c v : Nat} {r t : List (Option Nat)}
    (h : search g c v .preferExemptions = .fail r t) :
    ¬ ∃ p l, Walk g.backward .preferExemptions c (some v) p l none := by
  unfold search at h
  split at h
  · cases h
  · cases h
  · rename_i vis hnf
    have hc := search_complete g.backward c (some v) none .preferExemptions (searchFuel g) vis
      (by simpa only [searchForPath, initQueue, if_true] using hnf)
    intro hw
    exact hc.2 ((hc.1 none).2 hw)

theorem search_cases (g : Graph) (c v : Nat) :
    (∃ path, search g c v .preferExemptions = .ok path) ∨
    (∃ r t, search g c v .preferExemptions = .fail r t) ∨
    (∃ e, search g c v .preferExemptions = .panic e) := by
  cases h : search g c v .preferExemptions with
  | ok p => exact Or.inl ⟨p, rfl⟩
  | fail r t => exact Or.inr (Or.inl ⟨r, t, rfl⟩)
  | panic e => exact Or.inr (Or.inr ⟨e, rfl⟩)

/-- `.ok` gives a certifying chain -/
theorem search_ok_certPath {s : Store} {m : Mapper} {name : Nat} {g : Graph}
    (hb : build s m name = .ok (.graph g)) {c v : Nat} {path : List Origin}
    (h : search g c v .preferExemptions = .ok path) :
    CertPath s m name c none path.reverse (some v) := by
  obtain ⟨l, w, _⟩ := search_ok h
  exact walk_certPath hb w

/-- `.fail` excludes every certifying chain -/
theorem search_fail_no_chain {s : Store} {m : Mapper} {name : Nat} {g : Graph}
    (hb : build s m name = .ok (.graph g)) {c v : Nat} {r t : List (Option Nat)}
    (h : search g c v .preferExemptions = .fail r t) : ¬ CertChain s m name c v := by
  rintro ⟨p, cp⟩
  obtain ⟨l, w⟩ := certPath_walk hb cp
  exact search_fail h ⟨_, _, w⟩

end Vet
