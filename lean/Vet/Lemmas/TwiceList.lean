/- List utilities for "check twice" (C13): `relockTable` on the kept-index tables of an update is a
row-by-row refresh of the freshness flags. -/
import Vet.Lemmas.Preserve
import Vet.Props.C13
namespace Vet

/-- mirror of `relockTable` of Vet/Props/C13Twice.lean (which imports this file); the two are
definitionally equal -/
def relockTableL {α : Type} (t : List (Nat × List α)) (kept : List (Nat × List Nat))
    (setFresh : α → Bool → α) : List (Nat × List α) :=
  (t.zip kept).map (fun ((n, l), (_, k)) => (n, l.zipIdx.map (fun (a, i) => setFresh a (!k.contains i))))

/-- mirror of `relock` of Vet/Props/C13Twice.lean -/
def relockL (s : Store) (u : Updates) : Store :=
  { s with
    imports := (s.imports.zip u.imports).map (fun (f, k) =>
      { audits := relockTableL f.audits k.1 (fun a b => { a with fresh := b }),
        wildcards := relockTableL f.wildcards k.2 (fun a b => { a with fresh := b }) }),
    publishers := relockTableL s.publishers u.publishers (fun a b => { a with fresh := b }),
    unpublished := relockTableL s.unpublished u.unpublished (fun a b => { a with fresh := b }),
    exemptions := u.exemptions }

/-- one row after `relockTable`: freshness recomputed from the keep predicate -/
def refreshRow {α : Type} (setFresh : α → Bool → α) (K : Nat → α → Bool) (l : List α) : List α :=
  l.zipIdx.map (fun x => setFresh x.1 (!K x.2 x.1))

theorem zip_map_self {α β : Type} (l : List α) (g : α → β) :
    l.zip (l.map g) = l.map (fun x => (x, g x)) := by
  induction l with
  | nil => rfl
  | cons x xs ih => simp [ih]

theorem zip_zipIdx_map {α β : Type} (l : List α) (G : α × Nat → β) :
    l.zip (l.zipIdx.map G) = l.zipIdx.map (fun y => (y.1, G y)) := by
  calc l.zip (l.zipIdx.map G) = (l.zipIdx.map Prod.fst).zip (l.zipIdx.map G) := by
        rw [List.zipIdx_map_fst]
    _ = _ := List.zip_map'

theorem zipIdx_map_zipIdx {α β : Type} (l : List α) (g : α × Nat → β) :
    (l.zipIdx.map g).zipIdx = l.zipIdx.map (fun x => (g x, x.2)) := by
  apply List.ext_getElem?
  intro i
  simp only [List.getElem?_zipIdx, List.getElem?_map, Nat.zero_add]
  cases l[i]? <;> rfl

theorem contains_keepIdx {α : Type} {l : List α} (f : Nat → α → Bool) {a : α} {i : Nat}
    (h : l[i]? = some a) : (keepIdx l f).contains i = f i a := by
  cases hf : f i a with
  | true =>
    exact List.contains_iff_mem.2 ((mem_keepIdx l f i).2 ⟨a, h, hf⟩)
  | false =>
    cases hc : (keepIdx l f).contains i with
    | false => rfl
    | true =>
      obtain ⟨a', ha', hf'⟩ := (mem_keepIdx l f i).1 (List.contains_iff_mem.1 hc)
      rw [h] at ha'
      cases ha'
      rw [hf] at hf'
      cases hf'

theorem keepIdx_congr {α : Type} {l : List α} {f g : Nat → α → Bool}
    (h : ∀ i a, l[i]? = some a → f i a = g i a) : keepIdx l f = keepIdx l g := by
  unfold keepIdx
  congr 1
  apply List.filter_congr
  rintro ⟨a, i⟩ hx
  exact h i a (List.mem_zipIdx_iff_getElem?.1 hx)

theorem keepIdx_refreshRow {α : Type} (sf : α → Bool → α) (K : Nat → α → Bool) (l : List α)
    (f : Nat → α → Bool) :
    keepIdx (refreshRow sf K l) f = keepIdx l (fun i a => f i (sf a (!K i a))) := by
  unfold keepIdx refreshRow
  rw [zipIdx_map_zipIdx, List.filter_map, List.map_map]
  rfl

theorem getElem?_refreshRow {α : Type} (sf : α → Bool → α) (K : Nat → α → Bool) (l : List α) (i : Nat) :
    (refreshRow sf K l)[i]? = l[i]?.map (fun a => sf a (!K i a)) := by
  unfold refreshRow
  rw [List.getElem?_map, List.getElem?_zipIdx]
  cases l[i]? <;> simp

theorem mem_zipIdx_refreshRow {α : Type} {sf : α → Bool → α} {K : Nat → α → Bool} {l : List α}
    {a' : α} {i : Nat} :
    (a', i) ∈ (refreshRow sf K l).zipIdx ↔ ∃ a, (a, i) ∈ l.zipIdx ∧ a' = sf a (!K i a) := by
  rw [List.mk_mem_zipIdx_iff_getElem?, getElem?_refreshRow]
  constructor
  · intro h
    cases hx : l[i]? with
    | none => rw [hx] at h; cases h
    | some a =>
      rw [hx] at h
      simp only [Option.map_some, Option.some.injEq] at h
      exact ⟨a, List.mk_mem_zipIdx_iff_getElem?.2 hx, h.symm⟩
  · rintro ⟨a, ha, rfl⟩
    rw [List.mk_mem_zipIdx_iff_getElem?.1 ha]
    rfl

theorem refreshRow_nil {α : Type} (sf : α → Bool → α) (K : Nat → α → Bool) : refreshRow sf K [] = [] := rfl

/-- `relockTable` against the kept-index table of an update -/
theorem relockTable_keep {α : Type} (t : List (Nat × List α)) (F : Nat → Nat → α → Bool)
    (sf : α → Bool → α) :
    relockTableL t (t.map (fun x => (x.1, keepIdx x.2 (F x.1)))) sf =
      t.map (fun x => (x.1, refreshRow sf (F x.1) x.2)) := by
  unfold relockTableL
  rw [zip_map_self, List.map_map]
  apply List.map_congr_left
  rintro ⟨n, l⟩ _
  simp only [Function.comp, refreshRow]
  congr 1
  apply List.map_congr_left
  rintro ⟨a, i⟩ hx
  simp only
  rw [contains_keepIdx (F n) (List.mem_zipIdx_iff_getElem?.1 hx)]

theorem getL_refreshTable {α : Type} (name : Nat) (t : List (Nat × List α)) (F : Nat → Nat → α → Bool)
    (sf : α → Bool → α) :
    getL name (t.map (fun x => (x.1, refreshRow sf (F x.1) x.2))) = refreshRow sf (F name) (getL name t) := by
  unfold getL
  rw [assoc?_map name t (fun n l => refreshRow sf (F n) l)]
  cases assoc? name t <;> rfl

theorem getL_keepTable {α : Type} (name : Nat) (t : List (Nat × List α)) (F : Nat → Nat → α → Bool) :
    getL name (t.map (fun x => (x.1, keepIdx x.2 (F x.1)))) = keepIdx (getL name t) (F name) := by
  unfold getL
  rw [assoc?_map name t (fun n l => keepIdx l (F n))]
  cases assoc? name t <;> rfl

end Vet
