/- C12 (prune half), assembly: the required entries of a crate of a passing store, and the
provenance of a criterion that survives pruning on an exemption. -/
import Vet.Lemmas.PruneNeeded
namespace Vet

/-- In a passing store, the required entries `getStoreUpdates` uses for a crate searched in a
non-regenerating mode are either empty or the result of `requiredForPkgs` on the crate's
conflict-free audit graph. -/
theorem reqOf_of_success {w : World} {modeOf : Nat → UpdateMode}
    {required : List (Nat × Option Required)}
    {r : Report} (hr : resolve w = .ok r) {a b f : List Nat} (hs : r.conclusion = .success a b f)
    (facts : ReqFacts r.graph r.mapper r.requirements w.store modeOf required)
    {n : Nat} (hmode : (modeOf n).search ≠ .regenerateExemptions) :
    ∃ rr, reqOfLookup (fun k => assoc? k required) n = some rr ∧
      (rr = [] ∨ ∃ g, build w.store r.mapper n = .ok (.graph g) ∧
        requiredForPkgs g r.mapper (modeOf n).search (pkgsOf r.graph r.requirements n) [] =
          .ok (some rr)) := by
  cases hl : assoc? n required with
  | none =>
    refine ⟨[], ?_, Or.inl rfl⟩
    show (assoc? n required).getD (some []) = some []
    rw [hl]
    rfl
  | some ro =>
    have hre := facts.ok _ _ hl
    have hreqOf : reqOfLookup (fun k => assoc? k required) n = ro := by
      show (assoc? n required).getD (some []) = ro
      rw [hl]
      rfl
    rw [hreqOf]
    rcases requiredEntries_cases hre with ⟨_, hro⟩ | ⟨hne, hrest⟩
    · exact ⟨[], hro, Or.inl rfl⟩
    · -- some third-party package of name `n` is in the graph
      obtain ⟨acc, v⟩ := resolve_view hr
      have hs' := hs
      rw [v.conclusion] at hs'
      obtain ⟨hv, -, -, -, -⟩ := concl_success hs'
      have hgraph : ∃ g, build w.store r.mapper n = .ok (.graph g) := by
        cases hpk : pkgsOf r.graph r.requirements n with
        | nil => exact absurd hpk hne
        | cons y rest =>
          obtain ⟨ver, req⟩ := y
          have hmem : (ver, req) ∈ pkgsOf r.graph r.requirements n := by
            rw [hpk]
            exact List.mem_cons_self
          obtain ⟨i, p, hp, _, hn, htp, _⟩ := mem_pkgsOf.1 hmem
          obtain ⟨g, hb, -⟩ := v.graph_of_no_violation hv (v.item_of_node hp) htp
          replace hb : build w.store r.mapper p.name = .ok (.graph g) := hb
          rw [hn] at hb
          exact ⟨g, hb⟩
      obtain ⟨g, hb⟩ := hgraph
      rcases hrest with ⟨cs, hcs, _⟩ | ⟨g', hg', hrp⟩
      · rw [hb] at hcs
        cases hcs
      · rw [hb] at hg'
        cases hg'
        obtain ⟨rr, rfl⟩ := requiredForPkgs_some _ _ _ hrp (by
          intro ver req hmem c hc
          obtain ⟨i', p', hp', hq', hn', htp', hv'⟩ := mem_pkgsOf.1 hmem
          obtain ⟨⟨hcn, hcb⟩, _⟩ := (mem_minimal ..).1 hc
          have hch := C01_sound w r hr a b f hs i' p' hp' htp' c
            ⟨hcn, by simpa [List.getD, hq'] using hcb⟩
          rw [hn', hv'] at hch
          exact search_ok_of_chain hb hmode hch)
        exact ⟨rr, rfl, Or.inr ⟨g, hb, hrp⟩⟩

/-- C12 (prune), main lemma -/
theorem prune_exemption_needed {w : World} {modeOf : Nat → UpdateMode} {u : Updates}
    (hnd : (w.store.exemptions.map (·.1)).Nodup)
    (hu : getStoreUpdates w modeOf = .ok u)
    {r : Report} (hr : resolve w = .ok r) {a b f : List Nat} (hs : r.conclusion = .success a b f)
    {n : Nat} (hsearch : (modeOf n).search = .preferFreshImports)
    (hprune : (modeOf n).pruneExemptions = true)
    {xs : List Exemption} (hx : (n, xs) ∈ u.exemptions) {x : Exemption} (hxm : x ∈ xs)
    {c : Nat} (hc : c ∈ x.criteria) :
    ∃ (i : Nat) (p : PkgNode) (g : Graph),
      r.graph.nodes[i]? = some p ∧ p.name = n ∧ p.thirdParty = true ∧ r.required i c ∧
      build w.store r.mapper n = .ok (.graph g) ∧
      (∀ path l, Walk g.backward .preferFreshImports c (some p.ver) path l none → 6 ≤ l) ∧
      (∃ (idx : Nat) (x₀ : Exemption), (x₀, idx) ∈ (getL n w.store.exemptions).zipIdx ∧
        x₀.version = x.version) := by
  obtain ⟨dg, m, reqs, required, ex0, hdg, hm, hreq, hall, hex0, hueq⟩ := getStoreUpdates_shape hu
  obtain ⟨hdg', hm', hreq'⟩ := resolve_parts hr
  rw [hdg'] at hdg
  cases hdg
  rw [hm'] at hm
  cases hm
  rw [hreq'] at hreq
  cases hreq
  have facts := allRequired_facts hall
  have hmode : (modeOf n).search ≠ .regenerateExemptions := by
    rw [hsearch]
    decide
  -- the entry comes from the narrowed table
  subst hueq
  replace hx : (n, xs) ∈ withFresh r.mapper required ex0 := hx
  have hx0 : (n, xs) ∈ ex0 := mem_withFresh (by
    intro y hy hyn ro hro
    have hy' := facts.mem y hy
    rw [hro, hyn] at hy'
    exact freshExemptions_eq_nil (requiredEntries_sound hmode hy').2) hx
  obtain ⟨xs0, hxs0, hupd⟩ := exemptionTable_mem hex0 hx0
  have hget : getL n w.store.exemptions = xs0 := getL_of_nodup hnd hxs0
  rw [← hget, hprune] at hupd
  obtain ⟨⟨x₀, idx⟩, hy, l', hl', hxl'⟩ := (updateExemptions_members hupd).1 x hxm
  replace hl' : updateExemption r.mapper true (reqOfLookup (fun k => assoc? k required) n) idx x₀ =
      .ok l' := hl'
  -- the required entries of `n`
  obtain ⟨rr, hrr, hcase⟩ := reqOf_of_success hr hs facts hmode
  rw [hrr] at hl'
  obtain ⟨original, horig, hver, hcrit⟩ := updateExemption_prune_mem hl' hxl'
  -- recorded criteria of the exemption are criteria it has
  have hsound : ExSound (some rr) idx original := by
    intro r0 hr0 su hg c' hc'
    cases hr0
    rcases hcase with rfl | ⟨g, hb, hrp⟩
    · cases hg
    · obtain ⟨x', cs, hx', hcs, hbit⟩ := (required_sound hb hmode hrp).1 idx su c' hg hc'
      cases pres_zipIdx_unique hy hx'
      rw [horig] at hcs
      cases hcs
      exact hbit
  have hcon := pres_containsSet_iff.2 (usefulSet_sub (prune := true) hsound)
  rw [hcrit hcon, usefulSet_prune_some] at hc
  obtain ⟨⟨_, hbit⟩, _⟩ := (mem_minimal ..).1 hc
  cases hg : rr.get? (.exemption idx) with
  | none =>
    rw [hg] at hbit
    simp at hbit
  | some su =>
    rw [hg] at hbit
    replace hbit : su.testBit c = true := hbit
    rcases hcase with rfl | ⟨g, hb, hrp⟩
    · cases hg
    · -- provenance of the recorded bit: a chosen path through the exemption
      obtain ⟨ver, req, hmem, hcmin, path, hpath, o, ho, he⟩ :=
        ((requiredForPkgs_prov _ rr hrp) _ su hg).2 c hbit
      rw [exemption_mem_originEntries he] at ho
      obtain ⟨i, p, hp, hq, hn, htp, hv⟩ := mem_pkgsOf.1 hmem
      obtain ⟨⟨hcn, hcb⟩, _⟩ := (mem_minimal ..).1 hcmin
      rw [hsearch] at hpath
      obtain ⟨l0, w0, hmin⟩ := search_ok_minimax hpath
      have h6 : 6 ≤ l0 := w0.exemption_level ho
      refine ⟨i, p, g, hp, hn, htp, ⟨hcn, by simpa [List.getD, hq] using hcb⟩, hb, ?_,
        ⟨idx, x₀, hy, hver.symm⟩⟩
      intro path' l' w'
      rw [hv] at w'
      exact Nat.le_trans h6 (hmin path' l' w')

end Vet
