/-
C19 — fetched crate sources stay inside the cache and are used only if fully unpacked.
Confinement is false on the current tree for archives with link entries (known finding F8):
kernel-evaluated witness below, reproduced on the real unpacker by the harness.  The completion-marker
half used to be false for an archive-supplied marker (F7); since the fix `unpack_package` skips the
archive's own `<prefix>/.cargo-ok`, and `C19_marker` / `C19_retry` hold for every link-free archive
(the older `*_partial` statements with the now superfluous `hnm` hypothesis are kept unchanged).
Property theorems only; helper lemmas live in Vet/Lemmas/Unpack.lean, UnpackSpec.lean, UnpackTop.lean
(the two conversion lemmas below are here because `isLink` / `namesMarker` are defined here).
`C19_complete_is_ok` as first stated is false for very deep source directories (fuel of `canon`):
see Vet/Props/C19_todo.lean; `C19_complete_is_ok_partial2` added `srcDir.length + 2 < 64`, and is
false as well since the model knows that a directory cannot be opened for writing (an entry below
`<prefix>/.cargo-ok` turns the marker path into a directory): `C19_complete_is_ok_partial3` adds
"after unpacking, the marker path is not a directory".
-/
import Vet.Lemmas.Unpack
import Vet.Lemmas.UnpackTop
namespace Vet.Unpack

def isLink (e : Entry) : Bool := match e.kind with | .symlink _ => true | _ => false

/-- the entry would land on the completion marker of crate `p` -/
def namesMarker (prefix_ : Nat) (e : Entry) : Bool :=
  e.path.filterMap (fun c => match c with | .normal n => some n | _ => none) == [prefix_, 0]

/-- the file system holds no symbolic link at or below the source directory -/
def NoLinksUnder (fs : FS) (srcDir : Path) : Prop :=
  ∀ p n, (p, n) ∈ fs → srcDir.isPrefixOf p = true → ∀ t, n ≠ .symlink t

theorem kind_of_isLink {archive : List Entry} (hnl : ∀ e ∈ archive, isLink e = false) :
    ∀ e ∈ archive, ∀ t, e.kind ≠ .symlink t := by
  intro e he t hk
  have := hnl e he
  simp [isLink, hk] at this

theorem relOf_of_namesMarker {prefix_ : Nat} {archive : List Entry}
    (hnm : ∀ e ∈ archive, namesMarker prefix_ e = false) : ∀ e ∈ archive, relOf e ≠ [prefix_, 0] := by
  intro e he h
  have h1 : (relOf e == [prefix_, 0]) = false := hnm e he
  simp [h] at h1

/-- Confinement, for archives without link entries (and a cache without links): unpacking crate
`p`, interrupted or not, never creates or modifies anything outside `srcDir ++ [p]`. -/
theorem C19_confined_partial (fs : FS) (srcDir : Path) (prefix_ : Nat) (archive : List Entry)
    (crashAfter : Option Nat) (hnl : ∀ e ∈ archive, isLink e = false) (hfs : NoLinksUnder fs srcDir)
    (hsrc : lookup fs srcDir = some .dir) (hcanon : canon fs 64 [] srcDir = some srcDir)
    (q : Path) (hq : (srcDir ++ [prefix_]).isPrefixOf q = false) :
    lookup (unpackPackage fs srcDir prefix_ archive crashAfter) q = lookup fs q := by
  have _ := hsrc  -- not needed: `hcanon` already makes `srcDir` present and link-free
  refine unpackPackage_outside fs srcDir prefix_ archive (kind_of_isLink hnl) hfs hcanon crashAfter q ?_
  intro h
  rw [List.isPrefixOf_iff_prefix.mpr h] at hq
  cases hq

/-- Completion marker, for archives that carry neither links nor their own marker: after an
interruption at any point the directory is not considered fetched. -/
theorem C19_marker_partial (fs : FS) (srcDir : Path) (prefix_ : Nat) (archive : List Entry) (k : Nat)
    (hnl : ∀ e ∈ archive, isLink e = false) (hnm : ∀ e ∈ archive, namesMarker prefix_ e = false)
    (hfs : NoLinksUnder fs srcDir) (hsrc : lookup fs srcDir = some .dir) (hcanon : canon fs 64 [] srcDir = some srcDir) :
    fetchIsOk (unpackPackage fs srcDir prefix_ archive (some k)) srcDir prefix_ = false := by
  have _ := hsrc  -- not needed: `hcanon` already makes `srcDir` present and link-free
  have _ := hnm   -- no longer needed since the archive's own marker entry is skipped: `C19_marker`
  exact fetchIsOk_crashed fs srcDir prefix_ archive (kind_of_isLink hnl) hfs hcanon k

/-- ... and the next fetch unpacks again from scratch: its result is what an uninterrupted
unpack of the same archive into the same cache produces -/
theorem C19_retry_partial (fs : FS) (srcDir : Path) (prefix_ : Nat) (archive : List Entry) (k : Nat)
    (hnl : ∀ e ∈ archive, isLink e = false) (hnm : ∀ e ∈ archive, namesMarker prefix_ e = false)
    (hfs : NoLinksUnder fs srcDir) (hsrc : lookup fs srcDir = some .dir) (hcanon : canon fs 64 [] srcDir = some srcDir)
    (q : Path) :
    lookup (fetch (unpackPackage fs srcDir prefix_ archive (some k)) srcDir prefix_ archive) q =
    lookup (unpackPackage fs srcDir prefix_ archive none) q := by
  have _ := hsrc  -- not needed: `hcanon` already makes `srcDir` present and link-free
  have _ := hnm   -- no longer needed since the archive's own marker entry is skipped: `C19_retry`
  have hno := fetchIsOk_crashed fs srcDir prefix_ archive (kind_of_isLink hnl) hfs hcanon k
  simp only [fetch, hno, Bool.false_eq_true, if_false]
  exact unpackPackage_congr0 srcDir prefix_ archive none
    (fs0_crashed_equiv fs srcDir prefix_ archive (kind_of_isLink hnl) hfs hcanon k) q

/-- a complete unpack of such an archive is considered fetched (unless an entry was refused, or a
directory sits at the marker path).
The statement without `hlen` is false: `canon` runs on fuel 64 and `hcanon` only forces
`srcDir.length < 64`, so for a source directory 62 or 63 components deep the marker path can not be
resolved (see `Vet/Props/C19_todo.lean`).
The statement without `hnd` (the former `C19_complete_is_ok_partial2`, below in a comment) is false
too: an entry below `<prefix>/.cargo-ok`, e.g. `<prefix>/.cargo-ok/x`, is not the archive's own
marker entry, so it is unpacked, and `create_dir_all` on its parent makes the marker path a
directory; opening that for writing fails (EISDIR, `writeThrough`), no marker is written and
`fetch_is_ok` answers no.  `hnd` — after unpacking every entry the marker path is not a directory —
is the weakest hypothesis that repairs it: `C19_complete_marker_dir_not_ok` is the converse. -/
theorem C19_complete_is_ok_partial3 (fs : FS) (srcDir : Path) (prefix_ : Nat) (archive : List Entry)
    (hnl : ∀ e ∈ archive, isLink e = false) (hfs : NoLinksUnder fs srcDir) (hsrc : lookup fs srcDir = some .dir) (hcanon : canon fs 64 [] srcDir = some srcDir)
    (hlen : srcDir.length + 2 < 64)
    (hall : (unpackEntries (set (removeTree fs (srcDir ++ [prefix_])) (srcDir ++ [prefix_]) .dir) srcDir prefix_ archive archive.length).2 = true)
    (hnd : lookup (unpackEntries (set (removeTree fs (srcDir ++ [prefix_])) (srcDir ++ [prefix_]) .dir) srcDir prefix_ archive archive.length).1 (markerPath srcDir prefix_) ≠ some .dir) :
    fetchIsOk (unpackPackage fs srcDir prefix_ archive none) srcDir prefix_ = true := by
  have _ := hsrc  -- not needed: `hcanon` already makes `srcDir` present and link-free
  exact fetchIsOk_complete fs srcDir prefix_ archive (kind_of_isLink hnl) hfs hcanon hlen hall hnd

/-- `hnd` is necessary: with a directory at the marker path after the last entry, the complete
unpack is not considered fetched (so every later fetch unpacks the crate again) -/
theorem C19_complete_marker_dir_not_ok (fs : FS) (srcDir : Path) (prefix_ : Nat) (archive : List Entry)
    (hnl : ∀ e ∈ archive, isLink e = false) (hfs : NoLinksUnder fs srcDir) (hcanon : canon fs 64 [] srcDir = some srcDir)
    (hall : (unpackEntries (set (removeTree fs (srcDir ++ [prefix_])) (srcDir ++ [prefix_]) .dir) srcDir prefix_ archive archive.length).2 = true)
    (hd : lookup (unpackEntries (set (removeTree fs (srcDir ++ [prefix_])) (srcDir ++ [prefix_]) .dir) srcDir prefix_ archive archive.length).1 (markerPath srcDir prefix_) = some .dir) :
    fetchIsOk (unpackPackage fs srcDir prefix_ archive none) srcDir prefix_ = false :=
  fetchIsOk_complete_dir fs srcDir prefix_ archive (kind_of_isLink hnl) hfs hcanon hall hd

/- The former statement, FALSE since `writeThrough` models EISDIR (full refutation of this statement:
`C19Todo.C19_complete_is_ok_partial2_false` in `Vet/Props/C19_todo.lean`; kernel-evaluated witness:
`C19_complete_is_ok_partial2_counterexample` below):

theorem C19_complete_is_ok_partial2 (fs : FS) (srcDir : Path) (prefix_ : Nat) (archive : List Entry)
    (hnl : ∀ e ∈ archive, isLink e = false) (hfs : NoLinksUnder fs srcDir) (hsrc : lookup fs srcDir = some .dir) (hcanon : canon fs 64 [] srcDir = some srcDir)
    (hlen : srcDir.length + 2 < 64)
    (hall : (unpackEntries (set (removeTree fs (srcDir ++ [prefix_])) (srcDir ++ [prefix_]) .dir) srcDir prefix_ archive archive.length).2 = true) :
    fetchIsOk (unpackPackage fs srcDir prefix_ archive none) srcDir prefix_ = true
-/

/-- After the fix the completion-marker half of C19 holds for every link-free archive, whatever
entry names it contains, including its own `.cargo-ok`: after an interruption at any point the
directory is not considered fetched. -/
theorem C19_marker (fs : FS) (srcDir : Path) (prefix_ : Nat) (archive : List Entry) (k : Nat)
    (hnl : ∀ e ∈ archive, isLink e = false)
    (hfs : NoLinksUnder fs srcDir) (hsrc : lookup fs srcDir = some .dir) (hcanon : canon fs 64 [] srcDir = some srcDir) :
    fetchIsOk (unpackPackage fs srcDir prefix_ archive (some k)) srcDir prefix_ = false := by
  have _ := hsrc  -- not needed: `hcanon` already makes `srcDir` present and link-free
  exact fetchIsOk_crashed fs srcDir prefix_ archive (kind_of_isLink hnl) hfs hcanon k

/-- ... and the retry unpacks from scratch -/
theorem C19_retry (fs : FS) (srcDir : Path) (prefix_ : Nat) (archive : List Entry) (k : Nat)
    (hnl : ∀ e ∈ archive, isLink e = false)
    (hfs : NoLinksUnder fs srcDir) (hsrc : lookup fs srcDir = some .dir) (hcanon : canon fs 64 [] srcDir = some srcDir)
    (q : Path) :
    lookup (fetch (unpackPackage fs srcDir prefix_ archive (some k)) srcDir prefix_ archive) q =
    lookup (unpackPackage fs srcDir prefix_ archive none) q := by
  have hno := C19_marker fs srcDir prefix_ archive k hnl hfs hsrc hcanon
  simp only [fetch, hno, Bool.false_eq_true, if_false]
  exact unpackPackage_congr0 srcDir prefix_ archive none
    (fs0_crashed_equiv fs srcDir prefix_ archive (kind_of_isLink hnl) hfs hcanon k) q

/-! Known findings: witnesses (cache root `[9]`, source dir `[9, 5]`, crate 1, sibling crate 2). -/

def cache0 : FS := [([9], .dir), ([9, 5], .dir), ([9, 5, 2], .dir), ([9, 5, 2, 7], .file 70), ([8], .dir), ([8, 3], .file 30)]

theorem cache0_noLinks : NoLinksUnder cache0 [9, 5] := by
  intro p n hmem _ t hn
  subst hn
  simp [cache0] at hmem

/-- counterexample to the former `C19_complete_is_ok_partial2`: the archive's only entry is
`<crate>/.cargo-ok/4`; it is link-free, every hypothesis of the former statement holds (the cache
has no links: `cache0_noLinks`), every entry is processed, the marker path ends up a directory, the
marker is not written and the completely unpacked crate is not considered fetched -/
theorem C19_complete_is_ok_partial2_counterexample :
    let archive : List Entry := [⟨[.normal 1, .normal 0, .normal 4], .file 40⟩]
    (∀ e ∈ archive, isLink e = false) ∧
    lookup cache0 [9, 5] = some .dir ∧ canon cache0 64 [] [9, 5] = some [9, 5] ∧
    ([9, 5] : Path).length + 2 < 64 ∧
    (unpackEntries (set (removeTree cache0 ([9, 5] ++ [1])) ([9, 5] ++ [1]) .dir) [9, 5] 1 archive archive.length).2 = true ∧
    lookup (unpackPackage cache0 [9, 5] 1 archive none) [9, 5, 1, 0] = some .dir ∧
    lookup (unpackPackage cache0 [9, 5] 1 archive none) [9, 5, 1, 0, 4] = some (.file 40) ∧
    fetchIsOk (unpackPackage cache0 [9, 5] 1 archive none) [9, 5] 1 = false := by
  decide +kernel

/-- F7 (repaired by fix c2593c5): the archive carries `<crate>/.cargo-ok` with body "ok" and the
unpack is cut off after that entry; the entry is skipped, so the next fetch does NOT believe the
partial tree and unpacks again, producing every file -/
theorem C19_fixed_marker :
    let archive : List Entry := [⟨[.normal 1, .normal 0], .file 1⟩, ⟨[.normal 1, .normal 4], .file 40⟩]
    fetchIsOk (unpackPackage cache0 [9, 5] 1 archive (some 1)) [9, 5] 1 = false ∧
    lookup (fetch (unpackPackage cache0 [9, 5] 1 archive (some 1)) [9, 5] 1 archive) [9, 5, 1, 4] = some (.file 40) := by
  decide +kernel

/-- F8: a symlink entry to the sibling crate's directory followed by a file through it: a file of
another crate is overwritten -/
theorem C19_counterexample_symlink :
    let archive : List Entry := [⟨[.normal 1, .normal 6], .symlink [9, 5, 2]⟩, ⟨[.normal 1, .normal 6, .normal 7], .file 99⟩]
    lookup (unpackPackage cache0 [9, 5] 1 archive none) [9, 5, 2, 7] = some (.file 99) := by
  decide +kernel

/-- (repaired by fix c2593c5) a `.cargo-ok` symlink to a file outside the cache is skipped: the
completion marker is written inside the crate directory and the outside file is untouched -/
theorem C19_fixed_marker_symlink :
    let archive : List Entry := [⟨[.normal 1, .normal 0], .symlink [8, 3]⟩]
    lookup (unpackPackage cache0 [9, 5] 1 archive none) [8, 3] = some (.file 30) ∧
    lookup (unpackPackage cache0 [9, 5] 1 archive none) [9, 5, 1, 0] = some (.file 1) := by
  decide +kernel

end Vet.Unpack
