/-
C11 — statements that are FALSE as originally written, kept verbatim as `Prop`s together with a
machine-checked refutation each.  The closest true statements are proved in `Vet/Props/C11.lean`
(`C11_stale_kept_partial`, `C11_exemptions_narrow_partial`, `C11_exemptions_untouched_partial`,
`C11_no_fresh_exemption_partial`).

Reasons:
* `C11_stale_kept`, `C11_exemptions_narrow`: the store tables are association *lists*; nothing in
  the hypotheses says a crate name occurs once.  With two entries for the same crate the
  statements compare one entry with the other.
* `C11_exemptions_untouched`: an exemption with an empty criteria list denotes the empty set,
  `useful = 0`, and `updateExemption` drops it.
* `C11_no_fresh_exemption`: quantifies over arbitrary graphs, which may *store* an edge whose
  origin is `FreshExemption`; only graphs made by `build` exclude that.
-/
import Vet.Props.C11
namespace Vet
namespace C11Todo

def C11_stale_kept_stmt : Prop :=
  ∀ (w : World) (modeOf : Nat → UpdateMode) (u : Updates)
    (_h : getStoreUpdates w modeOf = .ok u) (n : Nat)
    (_hp : (modeOf n).pruneImports = false)
    (_hnofresh : ∀ l, (n, l) ∈ w.store.publishers → ∀ p ∈ l, p.fresh = false)
    (_hnofresh2 : ∀ f ∈ w.store.imports, (∀ l, (n, l) ∈ f.audits → ∀ a ∈ l, a.fresh = false) ∧
                                        (∀ l, (n, l) ∈ f.wildcards → ∀ a ∈ l, a.fresh = false)),
    ∀ kept l, (n, kept) ∈ u.publishers → (n, l) ∈ w.store.publishers → kept = List.range l.length

def C11_exemptions_narrow_stmt : Prop :=
  ∀ (w : World) (modeOf : Nat → UpdateMode) (u : Updates) (m : Mapper)
    (_hm : Mapper.new w.table = .ok m)
    (_hmode : ∀ n, (modeOf n).search ≠ .regenerateExemptions)
    (_h : getStoreUpdates w modeOf = .ok u),
    ∀ n xs' x', (n, xs') ∈ u.exemptions → x' ∈ xs' →
      ∃ x ∈ getL n w.store.exemptions, x'.version = x.version ∧ x'.suggest = x.suggest ∧
        ∃ s s', m.fromList x.criteria = .ok s ∧ m.fromList x'.criteria = .ok s' ∧
          ∀ c, s'.testBit c = true → s.testBit c = true

def C11_exemptions_untouched_stmt : Prop :=
  ∀ (w : World) (modeOf : Nat → UpdateMode) (u : Updates) (m : Mapper)
    (_hm : Mapper.new w.table = .ok m)
    (_hmode : ∀ n, (modeOf n).search ≠ .regenerateExemptions)
    (_h : getStoreUpdates w modeOf = .ok u) (n : Nat) (_hp : (modeOf n).pruneExemptions = false),
    ∀ x ∈ getL n w.store.exemptions, ∃ x' ∈ getL n u.exemptions,
      x'.version = x.version ∧ x'.suggest = x.suggest ∧
      ∃ s, m.fromList x.criteria = .ok s ∧ m.fromList x'.criteria = .ok s

def C11_no_fresh_exemption_stmt : Prop :=
  ∀ (g : Graph) (c v : Nat) (mode : Mode) (path : List Origin)
    (_hmode : mode ≠ .regenerateExemptions) (_h : search g c v mode = .ok path),
    ∀ o ∈ path, ∀ v', o ≠ .freshExemption v'

/-! ### counterexamples -/

def um : UpdateMode := ⟨.preferExemptions, false, false, false⟩
def st0 : Store := ⟨[], ⟨[], []⟩, [], [], [], [], []⟩
/-- no packages, built-in criteria only -/
def w0 : World := ⟨[], ⟨[], []⟩, st0⟩
def m0 : Mapper := ⟨2, [1, 3]⟩

theorem m0_ok : Mapper.new w0.table = .ok m0 := by decide +kernel

/-- two publisher entries for crate 0: one record / no record -/
def wStale : World := { w0 with store := { st0 with publishers := [(0, [⟨1, 1, 1, false⟩]), (0, [])] } }
def uStale : Updates := ⟨[], [], [(0, [0]), (0, [])], [], []⟩

theorem C11_stale_kept_false : ¬ C11_stale_kept_stmt := by
  intro hst
  have hrun : getStoreUpdates wStale (fun _ => um) = .ok uStale := by decide +kernel
  have hnf : ∀ l, (0, l) ∈ wStale.store.publishers → ∀ p ∈ l, p.fresh = false := by
    intro l hl p hp
    simp only [wStale, st0, List.mem_cons, Prod.mk.injEq, true_and, List.not_mem_nil, or_false] at hl
    rcases hl with rfl | rfl
    · rw [List.mem_singleton] at hp
      subst hp
      rfl
    · cases hp
  have := hst wStale (fun _ => um) uStale hrun 0 rfl hnf (fun f hf => nomatch hf) [0] []
    (by decide) (by decide)
  exact absurd this (by decide)

/-- two exemption entries for crate 0 -/
def wNarrow : World :=
  { w0 with store := { st0 with exemptions := [(0, [⟨1, [0], true⟩]), (0, [⟨2, [0], true⟩])] } }
def uNarrow : Updates := ⟨[], [], [], [], [(0, [⟨1, [0], true⟩]), (0, [⟨2, [0], true⟩])]⟩

theorem C11_exemptions_narrow_false : ¬ C11_exemptions_narrow_stmt := by
  intro hst
  have hrun : getStoreUpdates wNarrow (fun _ => um) = .ok uNarrow := by decide +kernel
  obtain ⟨x, hx, hv, _⟩ := hst wNarrow (fun _ => um) uNarrow m0 m0_ok (fun _ => by decide) hrun
    0 [⟨2, [0], true⟩] ⟨2, [0], true⟩ (by decide) (by decide)
  have hget : getL 0 wNarrow.store.exemptions = [⟨1, [0], true⟩] := by decide
  rw [hget, List.mem_singleton] at hx
  subst hx
  exact absurd hv (by decide)

/-- an exemption with an empty criteria list -/
def wEmpty : World := { w0 with store := { st0 with exemptions := [(0, [⟨7, [], true⟩])] } }
def uEmpty : Updates := ⟨[], [], [], [], []⟩

theorem C11_exemptions_untouched_false : ¬ C11_exemptions_untouched_stmt := by
  intro hst
  have hrun : getStoreUpdates wEmpty (fun _ => um) = .ok uEmpty := by decide +kernel
  obtain ⟨x', hx', _⟩ := hst wEmpty (fun _ => um) uEmpty m0 m0_ok (fun _ => by decide) hrun
    0 rfl ⟨7, [], true⟩ (by decide)
  cases hx'

/-- a graph that stores an edge with a `FreshExemption` origin -/
def gFresh : Graph := ⟨[⟨none, some 0, 1, .freshExemption 5, 0⟩]⟩

theorem C11_no_fresh_exemption_false : ¬ C11_no_fresh_exemption_stmt := by
  intro hst
  have hrun : search gFresh 0 0 .preferExemptions = .ok [.freshExemption 5] := by decide +kernel
  exact hst gFresh 0 0 .preferExemptions _ (by decide) hrun _ (List.mem_singleton.2 rfl) 5 rfl

end C11Todo
end Vet
