/-
C03 (part 2) — `DepGraph::new` yields a valid children-first order of exactly the packages
of the maximal build graph, and classifies roots and third-party packages as documented.
Property theorems only; helpers in Vet/Lemmas/Topo*.lean.
-/
import Vet.Lemmas.Topo
import Vet.Lemmas.TopoSort
namespace Vet
open Topo

/-- The DFS never runs out of fuel. -/
theorem C03_depgraph_total (md : Meta) (pol : Policy) (hwf : md.WF) :
    DepGraph.new md pol ≠ .error .outOfFuel := by
  obtain ⟨s1, s2, _, _, hnew, _⟩ := new_run md pol hwf
  rw [hnew]
  intro h
  cases h

/-- On metadata whose normal/build edges are acyclic, the two-pass DFS lists every package it
reaches once, dependencies before dependents, including every dev-dependency of a workspace
member. -/
theorem C03_topo_valid (md : Meta) (pol : Policy) (g : DepGraph)
    (hwf : md.WF) (hacyc : md.AcyclicNB) (h : DepGraph.new md pol = .ok g) : ValidTopo g := by
  obtain ⟨s1, s2, hs1, hs2, hnew, hext1, hr1, hm2, hl2⟩ := new_run md pol hwf
  rw [hnew] at h
  cases h
  obtain ⟨rank, hrank⟩ := hacyc
  have H := contract2 (nb := nbF md) (fun i => rank ((rawOrder md).getD i 0))
    (nbF_rank md hwf rank hrank) ((srt md).length + 1)
  obtain ⟨inv1, hroots, _⟩ := visitAll_inv H (mems md) _ s1 (inv_init _) hs1
  obtain ⟨inv2, hdev, hmono⟩ := visitDev_inv H (devF md) (mems md) s1 s2 inv1 hs2
  have hvis : ∀ x ∈ s2.topo, x ∈ s2.visited := fun x hx => (inv2.split x).2 (Or.inl hx)
  refine ⟨inv2.nodup, ?_, ?_, ?_, ?_⟩
  · intro i hi
    simpa using hl2 i (hvis i hi)
  · intro pre i post heq d hd
    have heq' : s2.topo = pre ++ i :: post := heq
    have hi : i ∈ s2.topo := by rw [heq']; simp
    have hiv := hvis i hi
    rw [node_mk (hl2 i hiv)] at hd
    have hc : s2.visited.contains i = true := by simpa using hiv
    simp only [mkNode, hc, if_true] at hd
    exact inv2.ord pre i post heq' d hd
  · intro i hi d hd
    simp only [List.length_map, List.length_range] at hi
    rw [node_mk hi] at hd
    simp only [mkNode] at hd
    split at hd
    · rename_i hmem
      exact hdev i (by simpa using hmem) d hd
    · simp at hd
  · intro i hi hne
    simp only [List.length_map, List.length_range] at hi
    rw [node_mk hi] at hne
    simp only [mkNode] at hne
    split at hne
    · rename_i hmem
      exact hmono i (hroots i (by simpa using hmem))
    · exact absurd rfl hne

/-- One node per package, carrying its name/version, and third-party exactly when its source
is crates.io or its policy says `audit-as-crates-io = true`. -/
theorem C03_third_party (md : Meta) (pol : Policy) (g : DepGraph)
    (h : DepGraph.new md pol = .ok g) (i : Nat) (hi : i < g.nodes.length) :
    g.nodes.length = md.pkgs.length ∧
    ∃ p ∈ md.pkgs, (g.node i).name = p.name ∧ (g.node i).ver = p.ver ∧
      (g.node i).thirdParty = (p.cratesIo || ((pol.get p.name p.ver).bind (·.auditAs)) == some true) := by
  rw [new_eq] at h
  split at h
  · cases h
  · split at h
    · cases h
    · rename_i s1 _ s2 _
      cases h
      simp only [List.length_map, List.length_range] at hi
      refine ⟨by simp [srt_length], pk md i, pk_mem hi, ?_⟩
      rw [node_mk hi]
      simp only [mkNode, true_and]
      cases (pk md i).cratesIo <;>
        rcases (Option.bind (Policy.get pol (pk md i).name (pk md i).ver) (·.auditAs)) with _ | _ | _ <;>
        rfl

/-- A package is a root exactly when it is a workspace member that no package of the normal
build graph (what is reachable from the workspace over normal/build edges — the packages that
are not dev-only) depends on through a normal or build edge. -/
theorem C03_root_iff (md : Meta) (pol : Policy) (g : DepGraph)
    (hwf : md.WF) (h : DepGraph.new md pol = .ok g) (i : Nat) (hi : i < g.nodes.length) :
    (g.node i).isRoot = true ↔
      ((g.node i).isMember = true ∧
       ∀ q, q < g.nodes.length → (g.node q).isDevOnly = false → i ∉ (g.node q).normalBuildDeps) := by
  obtain ⟨s1, s2, hs1, hs2, hnew, hext1, hr1, hm2, hl2⟩ := new_run md pol hwf
  rw [hnew] at h
  cases h
  simp only [List.length_map, List.length_range] at hi ⊢
  rw [node_mk hi]
  simp only [mkNode, Bool.and_eq_true, Bool.not_eq_true']
  constructor
  · rintro ⟨hmem, hany⟩
    refine ⟨hmem, ?_⟩
    intro q hq hdo hin
    rw [node_mk hq] at hdo hin
    simp only [mkNode, Bool.not_eq_false'] at hdo hin
    have hq1 : q ∈ s1.visited := by simpa using hdo
    have hq2 : s2.visited.contains q = true := by simpa using hm2 q hq1
    rw [hq2] at hin
    simp only [if_true] at hin
    have hedge := hext1.fin q hq1 (by simp) i hin
    have : s1.redges.any (fun e => e.1 == i) = true := by
      rw [List.any_eq_true]
      exact ⟨(i, q), hedge, by simp⟩
    rw [this] at hany
    cases hany
  · rintro ⟨hmem, hall⟩
    refine ⟨hmem, ?_⟩
    cases hany : s1.redges.any (fun e => e.1 == i) with
    | false => rfl
    | true =>
      exfalso
      rw [List.any_eq_true] at hany
      obtain ⟨⟨c, q⟩, he, hc⟩ := hany
      have hci : c = i := by simpa using hc
      subst hci
      rcases hext1.snd _ he with h | h | h
      · simp at h
      · obtain ⟨hq1, hcq⟩ := h
        have hq2 := hm2 q hq1
        have hq := hl2 q hq2
        apply hall q hq
        · rw [node_mk hq]
          simp only [mkNode]
          simpa using hq1
        · rw [node_mk hq]
          simp only [mkNode]
          have : s2.visited.contains q = true := by simpa using hq2
          rw [this]
          exact hcq
      · simp at h

end Vet
