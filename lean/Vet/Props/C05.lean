/-
C05 — criteria mean their implication closure, nothing more, however they are written.
Property theorems only; helper lemmas live in Vet/Lemmas.
-/
import Vet.Lemmas.FromList
namespace Vet

/-- Reordering and duplicating list elements never changes the denoted set. -/
theorem C05_fromList_perm_dup (m : Mapper) (l₁ l₂ : List Nat) (s₁ s₂ : CSet)
    (h₁ : m.fromList l₁ = .ok s₁) (h₂ : m.fromList l₂ = .ok s₂)
    (hsame : ∀ i, i ∈ l₁ ↔ i ∈ l₂) : s₁ = s₂ := by
  apply Nat.eq_of_testBit_eq
  intro j
  have e1 := fromList_testBit m l₁ s₁ h₁ j
  have e2 := fromList_testBit m l₂ s₂ h₂ j
  have : (s₁.testBit j = true) ↔ (s₂.testBit j = true) := by
    rw [e1, e2]
    constructor
    · rintro ⟨i, hi, hb⟩; exact ⟨i, (hsame i).1 hi, hb⟩
    · rintro ⟨i, hi, hb⟩; exact ⟨i, (hsame i).2 hi, hb⟩
  cases h1 : s₁.testBit j <;> cases h2 : s₂.testBit j <;> simp_all

/-- A list and its concatenation with another denote the union. -/
theorem C05_fromList_append (m : Mapper) (l₁ l₂ : List Nat) (s₁ s₂ s : CSet)
    (h₁ : m.fromList l₁ = .ok s₁) (h₂ : m.fromList l₂ = .ok s₂)
    (h : m.fromList (l₁ ++ l₂) = .ok s) : s = s₁ ||| s₂ := by
  apply Nat.eq_of_testBit_eq
  intro j
  have e := fromList_testBit m _ s h j
  have e1 := fromList_testBit m l₁ s₁ h₁ j
  have e2 := fromList_testBit m l₂ s₂ h₂ j
  have : (s.testBit j = true) ↔ ((s₁ ||| s₂).testBit j = true) := by
    rw [e, Nat.testBit_or, Bool.or_eq_true, e1, e2]
    constructor
    · rintro ⟨i, hi, hb⟩
      rcases List.mem_append.1 hi with hi | hi
      · exact Or.inl ⟨i, hi, hb⟩
      · exact Or.inr ⟨i, hi, hb⟩
    · rintro (⟨i, hi, hb⟩ | ⟨i, hi, hb⟩)
      · exact ⟨i, List.mem_append.2 (Or.inl hi), hb⟩
      · exact ⟨i, List.mem_append.2 (Or.inr hi), hb⟩
  cases h1 : s.testBit j <;> cases h2 : (s₁ ||| s₂).testBit j <;> simp_all

/-- non-vacuity: a concrete table (one custom criterion implying safe-to-deploy) is accepted,
and two differently written lists denote the same set -/
example : ∃ m, Mapper.new [⟨0, [1]⟩] = .ok m ∧ m.fromList [2, 0, 2] = m.fromList [1, 2] := by
  exact ⟨⟨3, [1, 3, 7]⟩, by decide +kernel, by decide +kernel⟩

end Vet
