/-
C05 — criteria mean their implication closure, nothing more, however they are written.
Property theorems only; helper lemmas live in Vet/Lemmas/Closure.lean.
-/
import Vet.Lemmas.Closure
import Vet.Lemmas.FromList
import Vet.Lemmas.MapperSpec
namespace Vet

/-- The set computed for criterion `i` by `CriteriaMapper::new` is exactly what `i`
transitively implies (itself included) — for every table the constructor accepts. -/
theorem C05_closure_spec (t : Table) (m : Mapper) (h : Mapper.new t = .ok m)
    (i j : Nat) (hi : i < m.n) :
    (m.implied.getD i 0).testBit j = true ↔ t.Implies i j := by
  obtain ⟨_, _, _, hn, _⟩ := new_ok h
  exact new_closure h (hn ▸ hi) j

/-- A criteria list denotes the union of the closures of its elements: `j` is in the set
iff some listed element implies it. -/
theorem C05_fromList_spec (t : Table) (m : Mapper) (h : Mapper.new t = .ok m)
    (l : List Nat) (s : CSet) (hs : m.fromList l = .ok s) (j : Nat) :
    s.testBit j = true ↔ ∃ i ∈ l, t.Implies i j := by
  obtain ⟨_, _, _, hn, _⟩ := new_ok h
  rw [fromList_testBit m l s hs j]
  constructor
  · rintro ⟨i, hi, hb⟩
    exact ⟨i, hi, (new_closure h (hn ▸ fromList_ok_lt m l s hs i hi) j).1 hb⟩
  · rintro ⟨i, hi, hb⟩
    exact ⟨i, hi, (new_closure h (hn ▸ fromList_ok_lt m l s hs i hi) j).2 hb⟩

/-- Reordering and duplicating list elements never changes the denoted set. -/
theorem C05_fromList_perm_dup (m : Mapper) (l₁ l₂ : List Nat) (s₁ s₂ : CSet)
    (h₁ : m.fromList l₁ = .ok s₁) (h₂ : m.fromList l₂ = .ok s₂)
    (hsame : ∀ i, i ∈ l₁ ↔ i ∈ l₂) : s₁ = s₂ := by
  apply eq_of_testBit_iff
  intro j
  rw [fromList_testBit m l₁ s₁ h₁ j, fromList_testBit m l₂ s₂ h₂ j]
  constructor
  · rintro ⟨i, hi, hb⟩; exact ⟨i, (hsame i).1 hi, hb⟩
  · rintro ⟨i, hi, hb⟩; exact ⟨i, (hsame i).2 hi, hb⟩

/-- Replacing a list by its implication closure denotes the same set. -/
theorem C05_fromList_closure (t : Table) (m : Mapper) (h : Mapper.new t = .ok m)
    (l : List Nat) (s : CSet) (hs : m.fromList l = .ok s) :
    m.fromList (CSet.indices m.n s) = .ok s := by
  obtain ⟨_, _, hwf, hn, _⟩ := new_ok h
  obtain ⟨s', hs'⟩ := fromList_ok_of m (CSet.indices m.n s) (fun i hi => ((mem_indices ..).1 hi).1)
  rw [hs']
  congr 1
  apply eq_of_testBit_iff
  intro j
  rw [C05_fromList_spec t m h _ s' hs' j, C05_fromList_spec t m h l s hs j]
  constructor
  · rintro ⟨i, hi, hij⟩
    obtain ⟨i', hi', hi'i⟩ := (C05_fromList_spec t m h l s hs i).1 ((mem_indices ..).1 hi).2
    exact ⟨i', hi', Implies.trans hi'i hij⟩
  · rintro ⟨i, hi, hij⟩
    have hjn : j < m.n := hn ▸ Implies.lt hwf hij (hn ▸ fromList_ok_lt m l s hs i hi)
    refine ⟨j, (mem_indices ..).2 ⟨hjn, ?_⟩, .refl _⟩
    exact (C05_fromList_spec t m h l s hs j).2 ⟨i, hi, hij⟩

/-- Replacing a list by its minimal generating set (what cargo-vet prints and writes)
denotes the same set. -/
theorem C05_minimal_denotes (t : Table) (m : Mapper) (h : Mapper.new t = .ok m)
    (l : List Nat) (s : CSet) (hs : m.fromList l = .ok s) :
    m.fromList (m.minimal s) = .ok s := by
  obtain ⟨_, _, hwf, hn, _⟩ := new_ok h
  obtain ⟨s', hs'⟩ := fromList_ok_of m (m.minimal s) (fun i hi => ((mem_minimal ..).1 hi).1.1)
  rw [hs']
  congr 1
  apply eq_of_testBit_iff
  intro j
  rw [C05_fromList_spec t m h _ s' hs' j, C05_fromList_spec t m h l s hs j]
  constructor
  · rintro ⟨i, hi, hij⟩
    obtain ⟨i', hi', hi'i⟩ := (C05_fromList_spec t m h l s hs i).1 ((mem_minimal ..).1 hi).1.2
    exact ⟨i', hi', Implies.trans hi'i hij⟩
  · rintro ⟨i, hi, hij⟩
    have hjn : j < m.n := hn ▸ Implies.lt hwf hij (hn ▸ fromList_ok_lt m l s hs i hi)
    have hsj : s.testBit j = true := (C05_fromList_spec t m h l s hs j).2 ⟨i, hi, hij⟩
    exact exists_minimal h s _ j (Nat.le_refl _) hjn hsj

/-- The printed list has no implied duplicates. -/
theorem C05_minimal_irredundant (t : Table) (m : Mapper) (h : Mapper.new t = .ok m)
    (s : CSet) (a b : Nat) (ha : a ∈ m.minimal s) (hb : b ∈ m.minimal s) (hab : t.Implies b a) :
    a = b := by
  obtain ⟨_, _, _, hn, _⟩ := new_ok h
  obtain ⟨⟨hbn, hsb⟩, _⟩ := (mem_minimal ..).1 hb
  obtain ⟨_, hmin⟩ := (mem_minimal ..).1 ha
  rcases hmin b hbn hsb with h1 | h1
  · exact h1
  · rw [(new_closure h (hn ▸ hbn) a).2 hab] at h1
    cases h1

/-- every set built from names is closed under implication -/
theorem C05_fromList_closed (t : Table) (m : Mapper) (h : Mapper.new t = .ok m)
    (l : List Nat) (s : CSet) (hs : m.fromList l = .ok s) : t.Closed s := by
  intro i j hi hij
  obtain ⟨i', hi', hi'i⟩ := (C05_fromList_spec t m h l s hs i).1 hi
  exact (C05_fromList_spec t m h l s hs j).2 ⟨i', hi', Implies.trans hi'i hij⟩

/-- the constructor accepts exactly the well-formed tables: no built-in redefined, at most 64
criteria, every `implies` defined, no implication cycle -/
theorem C05_new_ok_iff (t : Table) :
    (∃ m, Mapper.new t = .ok m) ↔
      (∀ c ∈ t, c.clash = 0) ∧ t.n ≤ 64 ∧ (∀ c ∈ t, ∀ i ∈ c.implies, i < t.n) ∧
      (∀ i k, i < t.n → t.direct i k → ¬ t.Implies k i) := by
  constructor
  · rintro ⟨m, h⟩
    obtain ⟨h1, h2, hwf, _, _⟩ := new_ok h
    exact ⟨h1, h2, hwf, fun i k hi hd => new_acyclic h hi hd⟩
  · rintro ⟨h1, h2, hwf, hac⟩
    apply new_of h1 h2 hwf
    intro i hi hp
    obtain ⟨k, hd, hr⟩ := (Plus_iff hwf i i).1 hp
    exact hac i k hi hd hr

/-- A list and its concatenation with another denote the union. -/
theorem C05_fromList_append (m : Mapper) (l₁ l₂ : List Nat) (s₁ s₂ s : CSet)
    (h₁ : m.fromList l₁ = .ok s₁) (h₂ : m.fromList l₂ = .ok s₂)
    (h : m.fromList (l₁ ++ l₂) = .ok s) : s = s₁ ||| s₂ := by
  apply Nat.eq_of_testBit_eq
  intro j
  have e := fromList_testBit m _ s h j
  have e1 := fromList_testBit m l₁ s₁ h₁ j
  have e2 := fromList_testBit m l₂ s₂ h₂ j
  have : (s.testBit j = true) ↔ ((s₁ ||| s₂).testBit j = true) := by
    rw [e, Nat.testBit_or, Bool.or_eq_true, e1, e2]
    constructor
    · rintro ⟨i, hi, hb⟩
      rcases List.mem_append.1 hi with hi | hi
      · exact Or.inl ⟨i, hi, hb⟩
      · exact Or.inr ⟨i, hi, hb⟩
    · rintro (⟨i, hi, hb⟩ | ⟨i, hi, hb⟩)
      · exact ⟨i, List.mem_append.2 (Or.inl hi), hb⟩
      · exact ⟨i, List.mem_append.2 (Or.inr hi), hb⟩
  cases h1 : s.testBit j <;> cases h2 : (s₁ ||| s₂).testBit j <;> simp_all

/-- non-vacuity: a concrete table (one custom criterion implying safe-to-deploy) is accepted,
and two differently written lists denote the same set -/
example : ∃ m, Mapper.new [⟨0, [1]⟩] = .ok m ∧ m.fromList [2, 0, 2] = m.fromList [1, 2] := by
  exact ⟨⟨3, [1, 3, 7]⟩, by decide +kernel, by decide +kernel⟩

end Vet
