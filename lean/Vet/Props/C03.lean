/-
C03 — required criteria follow the documented policy rules over the whole graph.
Assembly of Vet/Props/C03Topo.lean (DepGraph::new) and Vet/Props/C03Req.lean
(resolve_requirements).
-/
import Vet.Props.C03Topo
import Vet.Props.C03Req
namespace Vet

/-- End to end: on metadata with acyclic normal/build edges the requirement vector computed
from the dependency graph cargo-vet builds is *the* solution of the documented rule system,
packages outside the maximal build graph get nothing, and any assignment satisfying the rules
as ⊇-constraints lies above it (leastness). -/
theorem C03_demand (md : Meta) (pol : Policy) (m : Mapper) (g : DepGraph) (req : List CSet)
    (hwf : md.WF) (hacyc : md.AcyclicNB) (hg : DepGraph.new md pol = .ok g)
    (h : resolveRequirements g pol m = .ok req) :
    IsDemand g pol m (fun i => req.getD i 0) ∧
    (∀ D, IsDemand g pol m D → ∀ p ∈ g.topo, D p = req.getD p 0) ∧
    (∀ i, i ∉ g.topo → req.getD i 0 = 0) ∧
    (∀ D : Nat → CSet, (∀ p ∈ g.topo, CSet.sub (ruleRhs g pol m D p) (D p)) →
        ∀ p ∈ g.topo, CSet.sub (req.getD p 0) (D p)) := by
  have hv := C03_topo_valid md pol g hwf hacyc hg
  have hs := C03_requirements_solve g pol m req hv h
  refine ⟨hs, ?_, ?_, ?_⟩
  · intro D hD p hp
    exact C03_demand_unique g pol m D _ hv hD hs p hp
  · intro i hi
    exact C03_unlisted_empty g pol m req hv h i hi
  · intro D hD
    exact C03_least g pol m req D hv h hD

end Vet
