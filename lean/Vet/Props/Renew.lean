/-
`renew` is one of the explicit asks of C11: it alters local wildcard audits.  What it may do:
move the end date of audits that have not opted out (`renew = false`) to the cap, and nothing
else; with `--expiring` only audits ending within six weeks.  The cap of C06 stays respected.
-/
import Vet.Model.Renew
namespace Vet.Renew

theorem setEnd_length (cap : Nat) (pick : Entry → Bool) (l : List Entry) :
    (setEnd cap pick l).length = l.length := by simp [setEnd]

/-- entry by entry: the `renew` flag is kept; the end is the old end or the cap -/
theorem setEnd_entry (cap : Nat) (pick : Entry → Bool) (l : List Entry) (i : Nat) (e : Entry)
    (h : l[i]? = some e) :
    ∃ e', (setEnd cap pick l)[i]? = some e' ∧ e'.renew = e.renew ∧
      ((pick e = true ∧ e'.stop = cap) ∨ (pick e = false ∧ e' = e)) := by
  simp only [setEnd, List.getElem?_map, h, Option.map_some]
  cases hp : pick e with
  | true => exact ⟨{ e with stop := cap }, by simp, rfl, Or.inl ⟨rfl, rfl⟩⟩
  | false => exact ⟨e, by simp, rfl, Or.inr ⟨rfl, rfl⟩⟩

/-- C11 (renew --expiring).  Crate by crate and entry by entry, the only change is that an
audit which has not opted out and ends within six weeks gets the cap as its end date. -/
theorem C11_renew_expiring (today cap : Nat) (ig : Bool) (t : List Crate) (j : Nat) (c : Crate)
    (hc : t[j]? = some c) :
    ∃ c', (renewExpiring today cap ig t)[j]? = some c' ∧ c'.name = c.name ∧
      c'.entries.length = c.entries.length ∧
      ∀ (i : Nat) (e : Entry), c.entries[i]? = some e → ∃ e' : Entry, c'.entries[i]? = some e' ∧ e'.renew = e.renew ∧
        (e' = e ∨ (e'.stop = cap ∧ e.renew ≠ some false ∧ e.stop < today + expirationDays)) := by
  refine ⟨{ c with entries := setEnd cap (pickExpiring today ig c.lastPublish) c.entries }, ?_, rfl,
    setEnd_length _ _ _, ?_⟩
  · simp [renewExpiring, List.getElem?_map, hc]
  · intro i e he
    obtain ⟨e', h1, h2, h3⟩ := setEnd_entry cap (pickExpiring today ig c.lastPublish) c.entries i e he
    refine ⟨e', h1, h2, ?_⟩
    rcases h3 with ⟨hp, hs⟩ | ⟨_, heq⟩
    · right
      refine ⟨hs, ?_, ?_⟩
      · intro hr
        simp [pickExpiring, Entry.shouldRenew, hr] at hp
      · simp only [pickExpiring, Entry.shouldRenew, Bool.and_eq_true, decide_eq_true_eq] at hp
        exact hp.1.2
    · exact Or.inl heq

/-- C11 (renew <crate>).  Other crates are untouched; in the named crate exactly the audits
that have not opted out get the cap. -/
theorem C11_renew_crate (cap name : Nat) (t : List Crate) (j : Nat) (c : Crate)
    (hc : t[j]? = some c) :
    ∃ c', (renewCrate cap name t)[j]? = some c' ∧ c'.name = c.name ∧
      (c.name ≠ name → c' = c) ∧
      c'.entries.length = c.entries.length ∧
      ∀ (i : Nat) (e : Entry), c.entries[i]? = some e → ∃ e' : Entry, c'.entries[i]? = some e' ∧ e'.renew = e.renew ∧
        (e' = e ∨ (e'.stop = cap ∧ e.renew ≠ some false ∧ c.name = name)) := by
  by_cases hn : c.name = name
  · refine ⟨{ c with entries := setEnd cap (fun e => e.renew.getD true) c.entries }, ?_, rfl,
      fun h => absurd hn h, setEnd_length _ _ _, ?_⟩
    · simp [renewCrate, List.getElem?_map, hc, hn]
    · intro i e he
      obtain ⟨e', h1, h2, h3⟩ := setEnd_entry cap (fun e => e.renew.getD true) c.entries i e he
      refine ⟨e', h1, h2, ?_⟩
      rcases h3 with ⟨hp, hs⟩ | ⟨_, heq⟩
      · right
        refine ⟨hs, ?_, hn⟩
        intro hr
        simp [hr] at hp
      · exact Or.inl heq
  · refine ⟨c, ?_, rfl, fun _ => rfl, rfl, ?_⟩
    · simp [renewCrate, List.getElem?_map, hc, hn]
    · intro i e he
      exact ⟨e, he, rfl, Or.inl rfl⟩

/-- C06 under renew: if every audit respected the one-year cap before, it does afterwards
(the store written by `renew` is not refused by the end-date check when loaded again). -/
theorem C06_renew_keeps_cap (today cap : Nat) (ig : Bool) (t : List Crate)
    (h : ∀ c ∈ t, ∀ e ∈ c.entries, e.stop ≤ cap) :
    ∀ c ∈ renewExpiring today cap ig t, ∀ e ∈ c.entries, e.stop ≤ cap := by
  intro c hc e he
  simp only [renewExpiring, List.mem_map] at hc
  obtain ⟨c0, hc0, rfl⟩ := hc
  simp only [setEnd, List.mem_map] at he
  obtain ⟨e0, he0, rfl⟩ := he
  split
  · exact Nat.le_refl _
  · exact h c0 hc0 e0 he0

/-- non-vacuity: an audit ending in three weeks is renewed, one that opted out is not, one of an
inactive crate is skipped unless `--include-inactive` -/
theorem renew_example :
    renewExpiring 1000 1365 true
      [⟨1, some 990, [⟨1020, none⟩, ⟨1020, some false⟩, ⟨1100, none⟩]⟩, ⟨2, some 100, [⟨900, none⟩]⟩]
      = [⟨1, some 990, [⟨1365, none⟩, ⟨1020, some false⟩, ⟨1100, none⟩]⟩, ⟨2, some 100, [⟨900, none⟩]⟩] ∧
    renewExpiring 1000 1365 false [⟨2, some 100, [⟨900, none⟩]⟩] = [⟨2, some 100, [⟨1365, none⟩]⟩] := by
  decide +kernel

end Vet.Renew
