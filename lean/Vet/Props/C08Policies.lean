/-
C08: "an unlocked `cargo vet` refuses to pass while ... an entry matches no package", and the
versioned-policy rule that keeps `dependency-criteria` unambiguous for third-party crates.
-/
import Vet.Model.CratePolicies
namespace Vet.Pol

/-- the check passes exactly when every policy entry matches a package (its name; for a
versioned entry its exact version) and every used version of a third-party crate that some
policy gives `dependency-criteria` has its own versioned entry -/
theorem C08_crate_policies (entries : List Entry) (pkgs : List Pkg) (tp : Nat → Bool) :
    check entries pkgs tp = [] ↔
      (∀ e ∈ entries, (∃ p ∈ pkgs, p.name = e.name) ∧
        (∀ v, e.version = some v → ∃ p ∈ pkgs, p.name = e.name ∧ p.version = v)) ∧
      (∀ p ∈ pkgs, tp p.name = true → (∃ e ∈ entries, e.hasDepCriteria = true ∧ e.name = p.name) →
        ∃ e ∈ entries, e.name = p.name ∧ e.version = some p.version) := by
  unfold check
  simp only [List.append_eq_nil_iff, List.filterMap_eq_nil_iff, List.map_eq_nil_iff,
    List.filter_eq_nil_iff]
  constructor
  · rintro ⟨⟨hneeds, hnames⟩, hvers⟩
    refine ⟨?_, ?_⟩
    · intro e he
      refine ⟨?_, ?_⟩
      · have := hnames e.name (by
          rw [List.mem_eraseDups]; exact List.mem_map.2 ⟨e, he, rfl⟩)
        simp only [Bool.not_eq_true', Bool.not_eq_false] at this
        obtain ⟨p, hp, hpe⟩ := List.any_eq_true.1 this
        exact ⟨p, hp, by simpa using hpe⟩
      · intro v hv
        have := hvers e he
        simp only [hv] at this
        split at this
        · rename_i h
          obtain ⟨p, hp, hpe⟩ := List.any_eq_true.1 h
          simp only [Bool.and_eq_true, beq_iff_eq] at hpe
          exact ⟨p, hp, hpe.1, hpe.2⟩
        · cases this
    · intro p hp htp ⟨e, he, hd, hn⟩
      have := hneeds p hp
      split at this
      · cases this
      · rename_i h
        have hdep : ((entries.filter (·.hasDepCriteria)).map (·.name)).contains p.name = true := by
          rw [List.contains_iff_mem]
          exact List.mem_map.2 ⟨e, List.mem_filter.2 ⟨he, hd⟩, hn⟩
        simp only [htp, hdep, Bool.true_and, Bool.and_eq_true, Bool.not_eq_true', not_and,
          Bool.not_eq_false] at h
        obtain ⟨e', he', hq⟩ := List.any_eq_true.1 h
        simp only [Bool.and_eq_true, beq_iff_eq] at hq
        exact ⟨e', he', hq.1, hq.2⟩
  · rintro ⟨hent, hpk⟩
    refine ⟨⟨?_, ?_⟩, ?_⟩
    · intro p hp
      split
      · rename_i h
        exfalso
        simp only [Bool.and_eq_true, Bool.not_eq_true'] at h
        obtain ⟨⟨htp, hdep⟩, hnone⟩ := h
        rw [List.contains_iff_mem] at hdep
        obtain ⟨e, he, hn⟩ := List.mem_map.1 hdep
        obtain ⟨he1, hd⟩ := List.mem_filter.1 he
        obtain ⟨e', he', hn', hv'⟩ := hpk p hp htp ⟨e, he1, hd, hn⟩
        have : (entries.any fun e => e.name == p.name && e.version == some p.version) = true :=
          List.any_eq_true.2 ⟨e', he', by simp [hn', hv']⟩
        rw [this] at hnone
        cases hnone
      · rfl
    · intro n hn
      rw [List.mem_eraseDups] at hn
      obtain ⟨e, he, rfl⟩ := List.mem_map.1 hn
      obtain ⟨⟨p, hp, hpe⟩, _⟩ := hent e he
      simp only [Bool.not_eq_true', Bool.not_eq_false]
      exact List.any_eq_true.2 ⟨p, hp, by simp [hpe]⟩
    · intro e he
      cases hv : e.version with
      | none => rfl
      | some v =>
        obtain ⟨p, hp, hn, hvv⟩ := (hent e he).2 v hv
        have : (pkgs.any fun p => p.name == e.name && p.version == v) = true :=
          List.any_eq_true.2 ⟨p, hp, by simp [hn, hvv]⟩
        simp [this]

/-- non-vacuity: the three kinds of refusal and an accepted table -/
theorem crate_policies_example :
    check [⟨1, none, true⟩] [⟨1, 5⟩, ⟨1, 6⟩] (fun _ => true) = [.needsVersion 1 5, .needsVersion 1 6] ∧
    check [⟨2, none, false⟩] [⟨1, 5⟩] (fun _ => true) = [.unused 2 none] ∧
    check [⟨1, some 7, false⟩] [⟨1, 5⟩] (fun _ => false) = [.unused 1 (some 7)] ∧
    check [⟨1, some 5, true⟩, ⟨1, some 6, false⟩] [⟨1, 5⟩, ⟨1, 6⟩] (fun _ => true) = [] := by
  decide +kernel

end Vet.Pol

namespace Vet.Pol

theorem mem_loop_fst (dn : List Nat) (tp : Nat → Bool) (pkgs : List Pkg) :
    ∀ (rem : List (Nat × Nat)) (errs : List Error) (k : Nat × Nat),
      k ∈ (loop dn tp pkgs rem errs).1 ↔ k ∈ rem ∧ ∀ p ∈ pkgs, (p.name, p.version) ≠ k := by
  induction pkgs with
  | nil => intro rem errs k; simp [loop]
  | cons p rest ih =>
    intro rem errs k
    simp only [loop]
    rw [ih]
    simp only [List.mem_filter, List.mem_cons, forall_eq_or_imp, bne_iff_ne, ne_eq]
    constructor
    · rintro ⟨⟨h1, h2⟩, h3⟩
      exact ⟨h1, fun h => h2 h.symm, h3⟩
    · rintro ⟨h1, h2, h3⟩
      exact ⟨⟨h1, fun h => h2 h.symm⟩, h3⟩

theorem loop_snd_nil (dn : List Nat) (tp : Nat → Bool) (pkgs : List Pkg) :
    ∀ (rem : List (Nat × Nat)) (errs : List Error),
      (pkgs.map (fun p => (p.name, p.version))).Nodup →
      ((loop dn tp pkgs rem errs).2 = [] ↔
        errs = [] ∧ ∀ p ∈ pkgs, (tp p.name && dn.contains p.name) = true →
          (p.name, p.version) ∈ rem) := by
  induction pkgs with
  | nil => intro rem errs _; simp [loop]
  | cons p rest ih =>
    intro rem errs hnd
    simp only [List.map_cons, List.nodup_cons] at hnd
    obtain ⟨hp, hnd'⟩ := hnd
    simp only [loop]
    rw [ih _ _ hnd']
    have hrest : ∀ q ∈ rest, ((q.name, q.version) ∈ rem.filter (· != (p.name, p.version)) ↔
        (q.name, q.version) ∈ rem) := by
      intro q hq
      simp only [List.mem_filter, bne_iff_ne, ne_eq, and_iff_left_iff_imp]
      intro _ heq
      exact hp (heq ▸ List.mem_map.2 ⟨q, hq, rfl⟩)
    simp only [List.mem_cons, forall_eq_or_imp]
    by_cases hc : (tp p.name && dn.contains p.name) = true
    · by_cases hf : rem.contains (p.name, p.version) = true
      · have hm : (p.name, p.version) ∈ rem := List.contains_iff_mem.1 hf
        simp only [hc, hf, Bool.not_true, Bool.and_false, Bool.false_eq_true, if_false]
        constructor
        · rintro ⟨h1, h2⟩
          exact ⟨h1, fun _ => hm, fun q hq hcq => (hrest q hq).1 (h2 q hq hcq)⟩
        · rintro ⟨h1, _, h2⟩
          exact ⟨h1, fun q hq hcq => (hrest q hq).2 (h2 q hq hcq)⟩
      · have hm : (p.name, p.version) ∉ rem := fun h => hf (List.contains_iff_mem.2 h)
        simp only [Bool.not_eq_true] at hf
        simp only [hc, hf, Bool.not_false, Bool.and_true, if_true]
        constructor
        · rintro ⟨h1, _⟩
          simp at h1
        · rintro ⟨_, h, _⟩
          exact absurd (h trivial) hm
    · have hc' : (tp p.name && dn.contains p.name && !rem.contains (p.name, p.version)) = false := by
        simp only [Bool.not_eq_true] at hc
        rw [hc, Bool.false_and]
      simp only [hc', Bool.false_eq_true, if_false]
      constructor
      · rintro ⟨h1, h2⟩
        exact ⟨h1, fun h => absurd h hc, fun q hq hcq => (hrest q hq).1 (h2 q hq hcq)⟩
      · rintro ⟨h1, _, h2⟩
        exact ⟨h1, fun q hq hcq => (hrest q hq).2 (h2 q hq hcq)⟩


theorem mem_versioned (entries : List Entry) (n v : Nat) :
    (n, v) ∈ (entries.filterMap (fun e => e.version.map (fun v => (e.name, v)))).eraseDups ↔
      ∃ e ∈ entries, e.name = n ∧ e.version = some v := by
  rw [List.mem_eraseDups, List.mem_filterMap]
  constructor
  · rintro ⟨e, he, h⟩
    cases hv : e.version with
    | none => simp [hv] at h
    | some w =>
      simp only [hv, Option.map_some, Option.some.injEq, Prod.mk.injEq] at h
      exact ⟨e, he, h.1, by rw [hv, h.2]⟩
  · rintro ⟨e, he, hn, hv⟩
    exact ⟨e, he, by simp [hv, hn]⟩

/-- The implementation agrees with the specification on acceptance whenever no two packages of
the graph share both name and version. -/
theorem checkImpl_nil_iff (entries : List Entry) (pkgs : List Pkg) (tp : Nat → Bool)
    (hnd : (pkgs.map (fun p => (p.name, p.version))).Nodup) :
    checkImpl entries pkgs tp = [] ↔ check entries pkgs tp = [] := by
  have h1 := loop_snd_nil ((entries.filter (·.hasDepCriteria)).map (·.name)) tp pkgs
    ((entries.filterMap (fun e => e.version.map (fun v => (e.name, v)))).eraseDups) [] hnd
  have h2 := mem_loop_fst ((entries.filter (·.hasDepCriteria)).map (·.name)) tp pkgs
    ((entries.filterMap (fun e => e.version.map (fun v => (e.name, v)))).eraseDups) []
  unfold checkImpl check
  cases hl : loop ((entries.filter (·.hasDepCriteria)).map (·.name)) tp pkgs
    ((entries.filterMap (fun e => e.version.map (fun v => (e.name, v)))).eraseDups) [] with
  | mk r n =>
  rw [hl] at h1 h2
  simp only [true_and] at h1 h2
  simp only [hl, List.append_eq_nil_iff, List.map_eq_nil_iff]
  have hA : n = [] ↔ (pkgs.filterMap (fun p =>
      if tp p.name && ((entries.filter (·.hasDepCriteria)).map (·.name)).contains p.name &&
         !(entries.any (fun e => e.name == p.name && e.version == some p.version))
      then some (Error.needsVersion p.name p.version) else none)) = [] := by
    rw [h1, List.filterMap_eq_nil_iff]
    constructor
    · intro h p hp
      split
      · rename_i hc
        exfalso
        simp only [Bool.and_eq_true, Bool.not_eq_true'] at hc
        obtain ⟨hc1, hnone⟩ := hc
        have := h p hp (by simpa using hc1)
        rw [mem_versioned] at this
        obtain ⟨e, he, hn, hv⟩ := this
        have : (entries.any fun e => e.name == p.name && e.version == some p.version) = true :=
          List.any_eq_true.2 ⟨e, he, by simp [hn, hv]⟩
        rw [this] at hnone
        cases hnone
      · rfl
    · intro h p hp hc
      have := h p hp
      split at this
      · cases this
      · rename_i hc'
        rw [hc] at hc'
        simp only [Bool.true_and, Bool.not_eq_true', Bool.not_eq_false] at hc'
        obtain ⟨e, he, hq⟩ := List.any_eq_true.1 hc'
        simp only [Bool.and_eq_true, beq_iff_eq] at hq
        exact (mem_versioned entries p.name p.version).2 ⟨e, he, hq.1, hq.2⟩
  have hC : r = [] ↔ (entries.filterMap (fun e =>
      match e.version with
      | some v => if pkgs.any (fun p => p.name == e.name && p.version == v) then none
                  else some (Error.unused e.name (some v))
      | none => none)) = [] := by
    rw [List.filterMap_eq_nil_iff, List.eq_nil_iff_forall_not_mem]
    constructor
    · intro h e he
      cases hv : e.version with
      | none => rfl
      | some v =>
        have hk := h (e.name, v)
        rw [h2] at hk
        have : (pkgs.any fun p => p.name == e.name && p.version == v) = true := by
          apply Classical.byContradiction
          intro hno
          apply hk
          refine ⟨(mem_versioned entries e.name v).2 ⟨e, he, rfl, hv⟩, ?_⟩
          intro p hp heq
          apply hno
          simp only [Prod.mk.injEq] at heq
          exact List.any_eq_true.2 ⟨p, hp, by simp [heq.1, heq.2]⟩
        simp [this]
    · rintro h ⟨kn, kv⟩ hk
      rw [h2] at hk
      obtain ⟨hk1, hk2⟩ := hk
      obtain ⟨e, he, hn, hv⟩ := (mem_versioned entries kn kv).1 hk1
      have := h e he
      simp only [hv] at this
      split at this
      · rename_i hany
        obtain ⟨p, hp, hpe⟩ := List.any_eq_true.1 hany
        simp only [Bool.and_eq_true, beq_iff_eq] at hpe
        exact hk2 p hp (by rw [hpe.1, hpe.2, hn])
      · cases this
  rw [hA, hC]
  exact Iff.rfl

/-- C08 (policy structure), for the check as implemented -/
theorem C08_crate_policies_impl (entries : List Entry) (pkgs : List Pkg) (tp : Nat → Bool)
    (hnd : (pkgs.map (fun p => (p.name, p.version))).Nodup) :
    checkImpl entries pkgs tp = [] ↔
      (∀ e ∈ entries, (∃ p ∈ pkgs, p.name = e.name) ∧
        (∀ v, e.version = some v → ∃ p ∈ pkgs, p.name = e.name ∧ p.version = v)) ∧
      (∀ p ∈ pkgs, tp p.name = true → (∃ e ∈ entries, e.hasDepCriteria = true ∧ e.name = p.name) →
        ∃ e ∈ entries, e.name = p.name ∧ e.version = some p.version) :=
  (checkImpl_nil_iff entries pkgs tp hnd).trans (C08_crate_policies entries pkgs tp)

/-- Without that hypothesis the implementation refuses a table the specification accepts: two
packages with the same name and version (two sources), a versioned policy for exactly that
version — the key is consumed by the first package and the second is reported as lacking it. -/
theorem checkImpl_spurious_needsVersion :
    check [⟨1, some 5, true⟩] [⟨1, 5⟩, ⟨1, 5⟩] (fun _ => true) = [] ∧
    checkImpl [⟨1, some 5, true⟩] [⟨1, 5⟩, ⟨1, 5⟩] (fun _ => true) = [.needsVersion 1 5] := by
  decide +kernel

end Vet.Pol
