/-
C02, the report clause: the JSON and human reports name exactly the third-party crate versions
lacking a chain and, for each, exactly the missing criteria written without implied
duplicates; the exit status is non-zero exactly when the conclusion is not success.
-/
import Vet.Props.Resolve
import Vet.Props.C05
import Vet.Model.Report
namespace Vet

theorem resolve_mapper {w : World} {r : Report} (h : resolve w = .ok r) :
    Mapper.new w.table = .ok r.mapper := by
  unfold resolve at h
  split at h
  · cases h
  · split at h
    · cases h
    · rename_i hm
      split at h
      · cases h
      · split at h
        · cases h
        · simp only [Except.ok.injEq] at h
          subst h
          exact hm

/-- C02 (exit status). `cargo vet` exits non-zero exactly when the conclusion is not success. -/
theorem C02_exit_status (r : Report) :
    r.exitCode ≠ 0 ↔ ¬ ∃ a b f, r.conclusion = .success a b f := by
  unfold Report.exitCode Report.hasErrors
  cases hc : r.conclusion <;> simp

/-- C02 (report, soundness of every line).  Every line of the JSON failure report is a
third-party package of the graph; every criterion it prints is required of that package and
has no certifying chain; every required criterion without a chain is implied by a printed
one; and no printed criterion is implied by another printed one. -/
theorem C02_report_lines (w : World) (r : Report) (h : resolve w = .ok r)
    (line : FailLine) (hl : line ∈ r.jsonFailures) :
    ∃ i p, r.graph.nodes[i]? = some p ∧ p.thirdParty = true ∧ line.name = p.name ∧ line.ver = p.ver ∧
      (∀ c ∈ line.missing, r.required i c ∧ ¬ CertChain w.store r.mapper p.name c p.ver) ∧
      (∀ c, r.required i c → ¬ CertChain w.store r.mapper p.name c p.ver →
        ∃ b ∈ line.missing, w.table.Implies b c) ∧
      (∀ a b, a ∈ line.missing → b ∈ line.missing → w.table.Implies b a → a = b) := by
  unfold Report.jsonFailures at hl
  split at hl
  · rename_i fs hf
    obtain ⟨⟨i, bits⟩, hmem, hmap⟩ := List.mem_filterMap.1 hl
    obtain ⟨p, hp, htp, _, hbits⟩ := (C02_failures_exact w r h fs hf i bits).1 hmem
    simp only [hp, Option.map_some, Option.some.injEq] at hmap
    subst hmap
    have hm := resolve_mapper h
    refine ⟨i, p, hp, htp, rfl, rfl, ?_, ?_, ?_⟩
    · intro c hc
      exact (hbits c).1 ((mem_minimal ..).1 hc).1.2
    · intro c hreq hno
      have hb : bits.testBit c = true := (hbits c).2 ⟨hreq, hno⟩
      exact exists_minimal hm bits _ c (Nat.le_refl _) hreq.1 hb
    · intro a b ha hb hab
      exact C05_minimal_irredundant w.table r.mapper hm bits a b ha hb hab
  · cases hl

/-- C02 (report, completeness).  Every third-party package with a required criterion lacking a
chain has a line in the report (when the verdict is a missing-audit failure). -/
theorem C02_report_complete (w : World) (r : Report) (h : resolve w = .ok r)
    (fs : List (Nat × CSet)) (hf : r.conclusion = .failVet fs)
    (i : Nat) (p : PkgNode) (hp : r.graph.nodes[i]? = some p) (htp : p.thirdParty = true)
    (c : Nat) (hreq : r.required i c) (hno : ¬ CertChain w.store r.mapper p.name c p.ver) :
    ∃ line ∈ r.jsonFailures, line.name = p.name ∧ line.ver = p.ver ∧
      ∃ b ∈ line.missing, w.table.Implies b c := by
  obtain ⟨acc, v⟩ := resolve_view h
  have hf0 := hf
  rw [v.conclusion] at hf
  obtain ⟨hv, rfl⟩ := concl_failVet hf
  have hx := v.item_of_node hp
  obtain ⟨g, hb, hfp⟩ := v.graph_of_no_violation hv hx htp
  have hbit : (classOf r.mapper g p (r.requirements.getD i 0)).2.2.testBit c = true :=
    (classOf_failures_testBit _ hb hfp c).2 ⟨hreq, hno⟩
  have hne : (classOf r.mapper g p (r.requirements.getD i 0)).2.2 ≠ 0 := by
    intro h0
    rw [h0] at hbit
    simp at hbit
  have hmem : (i, (classOf r.mapper g p (r.requirements.getD i 0)).2.2) ∈ acc.failures := by
    rw [v.failures, List.mem_flatMap]
    refine ⟨_, hx, ?_⟩
    rw [contrib_graph htp hb]
    show (i, _) ∈ (if _ then _ else _)
    rw [if_pos (bne_iff_ne.2 hne)]
    exact List.mem_singleton.2 rfl
  have hm := resolve_mapper h
  refine ⟨⟨p.name, p.ver, r.mapper.minimal (classOf r.mapper g p (r.requirements.getD i 0)).2.2⟩, ?_, rfl, rfl, ?_⟩
  · unfold Report.jsonFailures
    rw [hf0]
    apply List.mem_filterMap.2
    exact ⟨_, hmem, by simp [hp]⟩
  · exact exists_minimal hm _ _ c (Nat.le_refl _) hreq.1 hbit

/-! ### the human report lists the same lines, ordered by name then version -/

theorem insertByKey_perm {α : Type} (key : α → Nat) (x : α) (l : List α) :
    (insertByKey key x l).Perm (x :: l) := by
  induction l with
  | nil => exact List.Perm.refl _
  | cons y ys ih =>
    unfold insertByKey
    split
    · exact List.Perm.refl _
    · exact (ih.cons y).trans (List.Perm.swap _ _ _)

theorem sortByKey_perm {α : Type} (key : α → Nat) (l : List α) : (sortByKey key l).Perm l := by
  induction l with
  | nil => exact List.Perm.refl _
  | cons x xs ih =>
    show (insertByKey key x (sortByKey key xs)).Perm (x :: xs)
    exact (insertByKey_perm key x _).trans (ih.cons x)

theorem insertByKey_sorted {α : Type} (key : α → Nat) (x : α) (l : List α)
    (h : l.Pairwise (fun a b => key a ≤ key b)) :
    (insertByKey key x l).Pairwise (fun a b => key a ≤ key b) := by
  induction l with
  | nil => simp [insertByKey]
  | cons y ys ih =>
    unfold insertByKey
    rw [List.pairwise_cons] at h
    split
    · rename_i hlt
      rw [List.pairwise_cons]
      refine ⟨?_, List.pairwise_cons.2 h⟩
      intro z hz
      rcases List.mem_cons.1 hz with rfl | hz
      · omega
      · have := h.1 z hz
        omega
    · rename_i hge
      rw [List.pairwise_cons]
      refine ⟨?_, ih h.2⟩
      intro z hz
      rcases List.mem_cons.1 ((insertByKey_perm key x ys).subset hz) with rfl | hz
      · omega
      · exact h.1 z hz

theorem sortByKey_sorted {α : Type} (key : α → Nat) (l : List α) :
    (sortByKey key l).Pairwise (fun a b => key a ≤ key b) := by
  induction l with
  | nil => exact List.Pairwise.nil
  | cons x xs ih => exact insertByKey_sorted key x _ ih

/-- C02 (human report). The `missing` lines of the human report are the JSON failures, each
once, ordered by crate name. -/
theorem C02_human_same_lines (r : Report) :
    r.humanFailures.Perm r.jsonFailures ∧
    r.humanFailures.Pairwise (fun a b => a.name ≤ b.name) :=
  ⟨(sortByKey_perm _ _).trans (sortByKey_perm _ _), sortByKey_sorted _ _⟩

end Vet
