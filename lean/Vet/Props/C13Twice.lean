/-
C13: a second successful unlocked check with unchanged remote state changes nothing
(`C13_check_twice_partial_v2`, `C13_second_check_succeeds_partial`).  Helper lemmas live in
Vet/Lemmas/Twice*.lean.  The statement as first written is false on the list-based model and is
kept below with its kernel-checked refutations.
-/
import Vet.Props.C10
import Vet.Props.C11
import Vet.Props.C13
import Vet.Props.Search
import Vet.Props.C05
import Vet.Lemmas.TwiceSecond
namespace Vet

/-- the freshness the next unlocked run computes for a live table when the remote serves the same
records: a record is fresh iff the previous update did not keep it (rows are matched by
position: `u`'s tables are produced row by row from the store's) -/
def relockTable {α : Type} (t : List (Nat × List α)) (kept : List (Nat × List Nat))
    (setFresh : α → Bool → α) : List (Nat × List α) :=
  (t.zip kept).map (fun ((n, l), (_, k)) => (n, l.zipIdx.map (fun (a, i) => setFresh a (!k.contains i))))

/-- the live view the next unlocked `cargo vet` resolves against, when peers and crates.io serve
exactly what they served before: same live records, freshness recomputed against the
imports.lock just written, exemptions as just rewritten; audits.toml is what it was (a check-mode
update keeps every local audit: `C13_clean_check_keeps_local_audits`) -/
def relock (s : Store) (u : Updates) : Store :=
  { s with
    imports := (s.imports.zip u.imports).map (fun (f, k) =>
      { audits := relockTable f.audits k.1 (fun a b => { a with fresh := b }),
        wildcards := relockTable f.wildcards k.2 (fun a b => { a with fresh := b }) }),
    publishers := relockTable s.publishers u.publishers (fun a b => { a with fresh := b }),
    unpublished := relockTable s.unpublished u.unpublished (fun a b => { a with fresh := b }),
    exemptions := u.exemptions }

/-! ### `C13_check_twice_partial` is false as originally written

The original statement (kept verbatim):

```
/-- C13 (check twice).  After a successful unlocked check, a second unlocked check against the
same remote data computes the same update: it keeps exactly the records the first one kept
(so imports.lock is rewritten with the same contents) and rewrites the exemptions identically. -/
theorem C13_check_twice_partial (w : World) (u : Updates)
    (hnd : (w.store.exemptions.map (·.1)).Nodup)
    (hu : getStoreUpdates w (fun _ => checkMode) = .ok u)
    (r : Report) (hr : resolve w = .ok r) (a b f : List Nat) (hs : r.conclusion = .success a b f)
    (u₂ : Updates)
    (hu₂ : getStoreUpdates { w with store := relock w.store u } (fun _ => checkMode) = .ok u₂) :
    u₂.imports = u.imports ∧ u₂.publishers = u.publishers ∧ u₂.unpublished = u.unpublished ∧
    u₂.audits = u.audits ∧ u₂.exemptions = u.exemptions
```

Two things the model allows and the real store does not make it false:
* a *local* audit (audits.toml) flagged `fresh` (the real `is_fresh_import` is false for local
  records): its caveat level stays 5 in the second run, so the second run's path for a criterion
  may tie with — and prefer — a path over a fresh import the first run dropped (`c13FreshLocal`);
* an imports table that lists a crate name twice (the real tables are maps): the shadowed row is
  filtered with the indices of the first row, and the second run may require an index the first
  run did not (`c13DupRows`).
Both are refuted below on concrete worlds; `C13_check_twice_partial_v2` adds the two missing
hypotheses (local records not fresh; unique keys in the import/publisher/unpublished tables). -/

/-- member `a` requires custom criteria 2 and 3 of crate `b` version 5 -/
def c13TwiceMeta : Meta := ⟨[⟨0, 0, 0, false, [(1, 1)]⟩, ⟨1, 5, 1, true, []⟩], [0]⟩

/-- a local delta audit 1 → 5 flagged fresh: criterion 2 is first vetted over the local audits,
criterion 3 over the fresh import 2 → 5; in the second run that import is stale and criterion 2 is
routed over it and over a fresh import (index 2) the first run did not keep -/
def c13FreshLocal : World :=
  { table := [⟨0, []⟩, ⟨0, []⟩], md := c13TwiceMeta,
    store := { imports := [⟨[(1, [⟨.delta 2 5, [2, 3], true, true⟩, ⟨.full 2, [3], true, false⟩,
                                  ⟨.full 2, [2], true, true⟩])], []⟩],
               locals := ⟨[(1, [⟨.delta 1 5, [2], true, true⟩, ⟨.full 1, [2], true, false⟩])], []⟩,
               trusted := [], publishers := [], unpublished := [],
               exemptions := [], policy := [(0, .unversioned ⟨none, some [2, 3], none, []⟩)] } }

/-- the imports table of the peer lists crate `b` twice; no local record at all.  The fresh
unpublished link 2 → 5 is required by criterion 2 in the first run, is stale in the second, and
criterion 3 is then routed over it and over import index 1 — which in the shadowed row is a fresh
record the first run did not keep -/
def c13DupRows : World :=
  { table := [⟨0, []⟩, ⟨0, []⟩], md := c13TwiceMeta,
    store := { imports := [⟨[(1, [⟨.full 2, [2], true, false⟩, ⟨.full 2, [3], true, false⟩,
                                  ⟨.full 3, [3], true, false⟩]),
                             (1, [⟨.full 9, [2], true, false⟩, ⟨.full 9, [2], true, true⟩])], []⟩],
               locals := ⟨[], []⟩, trusted := [], publishers := [],
               unpublished := [(1, [⟨5, 2, true⟩, ⟨5, 3, false⟩])],
               exemptions := [], policy := [(0, .unversioned ⟨none, some [2, 3], none, []⟩)] } }

/-- imports kept by the check-mode update of the relocked store (those kept by the first update
are `importsKept w checkMode`) -/
def importsKeptTwice (w : World) : Option (List (List (Nat × List Nat) × List (Nat × List Nat))) :=
  match getStoreUpdates w (fun _ => checkMode) with
  | .ok u =>
    match getStoreUpdates { w with store := relock w.store u } (fun _ => checkMode) with
    | .ok u₂ => some u₂.imports
    | .error _ => none
  | .error _ => none

theorem C13_counterexample_fresh_local :
    conclusionOf c13FreshLocal = some (.success [] [] [1]) ∧
    importsKept c13FreshLocal checkMode = some [([(1, [0, 1])], [])] ∧
    importsKeptTwice c13FreshLocal = some [([(1, [0, 1, 2])], [])] := by
  refine ⟨?_, ?_, ?_⟩ <;> decide +kernel

theorem C13_counterexample_dup_rows :
    conclusionOf c13DupRows = some (.success [] [] [1]) ∧
    importsKept c13DupRows checkMode = some [([(1, [0, 1, 2]), (1, [0])], [])] ∧
    importsKeptTwice c13DupRows = some [([(1, [0, 1, 2]), (1, [0, 1])], [])] := by
  refine ⟨?_, ?_, ?_⟩ <;> decide +kernel

/-- the statement of `C13_check_twice_partial`, as a proposition about one world -/
def CheckTwiceStmt (w : World) : Prop :=
  ∀ (u : Updates), (w.store.exemptions.map (·.1)).Nodup →
    getStoreUpdates w (fun _ => checkMode) = .ok u →
    ∀ (r : Report), resolve w = .ok r → ∀ (a b f : List Nat), r.conclusion = .success a b f →
    ∀ (u₂ : Updates),
      getStoreUpdates { w with store := relock w.store u } (fun _ => checkMode) = .ok u₂ →
      u₂.imports = u.imports ∧ u₂.publishers = u.publishers ∧ u₂.unpublished = u.unpublished ∧
      u₂.audits = u.audits ∧ u₂.exemptions = u.exemptions

theorem not_checkTwiceStmt_of {w : World} {a b f : List Nat}
    {i₁ i₂ : List (List (Nat × List Nat) × List (Nat × List Nat))}
    (hnd : (w.store.exemptions.map (·.1)).Nodup)
    (hc : conclusionOf w = some (.success a b f))
    (h1 : importsKept w checkMode = some i₁) (h2 : importsKeptTwice w = some i₂) (hne : i₂ ≠ i₁) :
    ¬ CheckTwiceStmt w := by
  intro hall
  unfold importsKept at h1
  unfold importsKeptTwice at h2
  unfold conclusionOf at hc
  cases hu : getStoreUpdates w (fun _ => checkMode) with
  | error e => rw [hu] at h1; cases h1
  | ok u =>
    rw [hu] at h1 h2
    simp only [Option.some.injEq] at h1 h2
    cases hu₂ : getStoreUpdates { w with store := relock w.store u } (fun _ => checkMode) with
    | error e => rw [hu₂] at h2; cases h2
    | ok u₂ =>
      rw [hu₂] at h2
      simp only [Option.some.injEq] at h2
      cases hr : resolve w with
      | error e => rw [hr] at hc; cases hc
      | ok r =>
        rw [hr] at hc
        simp only [Option.some.injEq] at hc
        have := (hall u hnd hu r hr a b f hc u₂ hu₂).1
        rw [h1, h2] at this
        exact hne this

/-- `C13_check_twice_partial` is false as written: a local audit flagged fresh -/
theorem C13_check_twice_partial_refuted : ¬ (∀ w : World, CheckTwiceStmt w) := fun h =>
  not_checkTwiceStmt_of (w := c13FreshLocal) (by decide +kernel) C13_counterexample_fresh_local.1
    C13_counterexample_fresh_local.2.1 C13_counterexample_fresh_local.2.2 (by decide) (h _)

/-- and it stays false with local records that are not fresh, when an imports table repeats a name -/
theorem C13_check_twice_partial_refuted_dup_rows :
    ¬ (∀ w : World, (∀ x ∈ w.store.locals.audits, ∀ a ∈ x.2, a.fresh = false) →
        (∀ x ∈ w.store.locals.wildcards, ∀ a ∈ x.2, a.fresh = false) → CheckTwiceStmt w) := fun h =>
  not_checkTwiceStmt_of (w := c13DupRows) (by decide +kernel) C13_counterexample_dup_rows.1
    C13_counterexample_dup_rows.2.1 C13_counterexample_dup_rows.2.2 (by decide)
    (h _ (fun _ hx => nomatch hx) (fun _ hx => nomatch hx))

/-- C13 (check twice), with the missing hypotheses made explicit: local (audits.toml) records
carry no freshness flag, and the import, publisher and unpublished tables have unique keys (all of
which hold of every store the real code loads).  After a successful unlocked check, a second
unlocked check against the same remote data computes the same update: it keeps exactly the
records the first one kept (so imports.lock is rewritten with the same contents) and rewrites the
exemptions identically. -/
theorem C13_check_twice_partial_v2 (w : World) (u : Updates)
    (hnd : (w.store.exemptions.map (·.1)).Nodup)
    (hla : ∀ x ∈ w.store.locals.audits, ∀ a ∈ x.2, a.fresh = false)
    (hlw : ∀ x ∈ w.store.locals.wildcards, ∀ a ∈ x.2, a.fresh = false)
    (hndi : ∀ f ∈ w.store.imports, (f.audits.map (·.1)).Nodup ∧ (f.wildcards.map (·.1)).Nodup)
    (hndp : (w.store.publishers.map (·.1)).Nodup)
    (hndu : (w.store.unpublished.map (·.1)).Nodup)
    (hu : getStoreUpdates w (fun _ => checkMode) = .ok u)
    (r : Report) (hr : resolve w = .ok r) (a b f : List Nat) (hs : r.conclusion = .success a b f)
    (u₂ : Updates)
    (hu₂ : getStoreUpdates { w with store := relock w.store u } (fun _ => checkMode) = .ok u₂) :
    u₂.imports = u.imports ∧ u₂.publishers = u.publishers ∧ u₂.unpublished = u.unpublished ∧
    u₂.audits = u.audits ∧ u₂.exemptions = u.exemptions :=
  check_twice_core w u hnd hla hlw hndi hndp hndu hu r hr a b f hs u₂ hu₂

/-- and the second check succeeds as well -/
theorem C13_second_check_succeeds_partial (w : World) (u : Updates)
    (hnd : (w.store.exemptions.map (·.1)).Nodup)
    (hu : getStoreUpdates w (fun _ => checkMode) = .ok u)
    (r : Report) (hr : resolve w = .ok r) (a b f : List Nat) (hs : r.conclusion = .success a b f) :
    ∃ r' a' b' f', resolve { w with store := relock w.store u } = .ok r' ∧
      r'.conclusion = .success a' b' f' :=
  second_check_core w u hnd hu r hr a b f hs

/-! ### the hypotheses are satisfiable -/

/-- a world with fresh and stale imports, wildcard audits, publishers, unpublished links, a
violation and exemptions (one of them with an empty criteria list) -/
def c13TwiceWorld : World :=
  { table := [⟨0, []⟩, ⟨0, []⟩], md := c13TwiceMeta,
    store := { imports := [⟨[(1, [⟨.delta 4 5, [2], true, true⟩, ⟨.full 4, [2], true, false⟩,
                                  ⟨.full 5, [3], true, true⟩, ⟨.violation [7], [3], true, true⟩]),
                             (2, [⟨.violation [7], [3], true, true⟩, ⟨.full 5, [3], true, true⟩,
                                  ⟨.full 5, [3], true, false⟩])],
                            [(1, [⟨7, 0, 100, [3], true⟩, ⟨7, 0, 100, [2], false⟩])]⟩],
               locals := ⟨[(1, [⟨.full 4, [3], false, false⟩])], [(1, [⟨7, 0, 100, [2], false⟩])]⟩,
               trusted := [(1, [⟨7, 0, 100, [2]⟩])],
               publishers := [(1, [⟨5, 7, 5, true⟩, ⟨4, 7, 5, false⟩, ⟨4, 8, 5, true⟩])],
               unpublished := [(1, [⟨5, 4, true⟩, ⟨5, 3, false⟩, ⟨5, 3, true⟩])],
               exemptions := [(1, [⟨5, [], true⟩]), (2, [⟨5, [], true⟩])],
               policy := [(0, .unversioned ⟨none, some [2, 3], none, []⟩)] } }

/-- every hypothesis of `C13_check_twice_partial_v2` holds of `c13TwiceWorld`: the tables have
unique keys, no local record is fresh, the store passes, and both updates are computed (the first
imports a fresh audit, locks a fresh publisher record for a trusted entry, and prunes a stale import) -/
example :
    (c13TwiceWorld.store.exemptions.map (·.1)).Nodup ∧
    (∀ x ∈ c13TwiceWorld.store.locals.audits, ∀ a ∈ x.2, a.fresh = false) ∧
    (∀ x ∈ c13TwiceWorld.store.locals.wildcards, ∀ a ∈ x.2, a.fresh = false) ∧
    (∀ f ∈ c13TwiceWorld.store.imports, (f.audits.map (·.1)).Nodup ∧ (f.wildcards.map (·.1)).Nodup) ∧
    (c13TwiceWorld.store.publishers.map (·.1)).Nodup ∧
    (c13TwiceWorld.store.unpublished.map (·.1)).Nodup ∧
    conclusionOf c13TwiceWorld = some (.success [] [] [1]) ∧
    importsKept c13TwiceWorld checkMode = some [([(1, [2, 3]), (2, [2])], [(1, [])])] ∧
    importsKeptTwice c13TwiceWorld = some [([(1, [2, 3]), (2, [2])], [(1, [])])] := by
  refine ⟨?_, ?_, ?_, ?_, ?_, ?_, ?_, ?_, ?_⟩ <;> decide +kernel

/-- the hypotheses of `C13_second_check_succeeds_partial` hold of `c13FreshLocal`, and the second
check does succeed there (although the second update differs from the first) -/
example :
    (c13FreshLocal.store.exemptions.map (·.1)).Nodup ∧
    conclusionOf c13FreshLocal = some (.success [] [] [1]) ∧
    (match getStoreUpdates c13FreshLocal (fun _ => checkMode) with
     | .ok u => conclusionOf { c13FreshLocal with store := relock c13FreshLocal.store u }
     | .error _ => none) = some (.success [] [] [1]) := by
  refine ⟨?_, ?_, ?_⟩ <;> decide +kernel

end Vet
