/-
C01, C02 and C12 at the level of `resolve`: what a conclusion means in terms of the records.
Property theorems only; helper lemmas live in Vet/Lemmas/Resolve*.lean.
-/
import Vet.Lemmas.Resolve
namespace Vet

/-- the criteria required of package `i` in report `r` -/
def Report.required (r : Report) (i c : Nat) : Prop :=
  c < r.mapper.n ∧ (r.requirements.getD i 0).testBit c = true

/-- C01. A passing vet means every required (crate version, criterion) pair has a certifying
chain of records from "nothing" to exactly that version. -/
theorem C01_sound (w : World) (r : Report) (h : resolve w = .ok r)
    (a b f : List Nat) (hs : r.conclusion = .success a b f)
    (i : Nat) (p : PkgNode) (hp : r.graph.nodes[i]? = some p) (htp : p.thirdParty = true)
    (c : Nat) (hc : r.required i c) :
    CertChain w.store r.mapper p.name c p.ver := by
  obtain ⟨acc, v⟩ := resolve_view h
  rw [v.conclusion] at hs
  obtain ⟨hv, hf, -, -, -⟩ := concl_success hs
  have hx := v.item_of_node hp
  obtain ⟨g, hb, hfp⟩ := v.graph_of_no_violation hv hx htp
  have h0 := v.failures_zero hf hx htp hb
  exact (classOf_failures_zero _ hb hfp).1 h0 c hc.1 hc.2

/-- C01, "nothing else can make a crate pass": the path the resolver reports for a required
pair is itself a certifying chain (read from the target back to the root). -/
theorem C01_reported_path_is_chain (w : World) (r : Report) (h : resolve w = .ok r)
    (i : Nat) (p : PkgNode) (hp : r.graph.nodes[i]? = some p)
    (results : List SearchOutcome) (hr : r.results[i]? = some (.searched results))
    (c : Nat) (path : List Origin) (hpath : results[c]? = some (.ok path)) :
    CertPath w.store r.mapper p.name c none path.reverse (some p.ver) := by
  obtain ⟨acc, v⟩ := resolve_view h
  obtain ⟨g, hb, hres⟩ := v.searched hp hr
  subst hres
  obtain ⟨hc, ho⟩ := searchAll_getElem? hpath
  exact search_ok_certPath hb ho.symm

/-- C02. No false failures: if no third-party crate has a violation conflict and every
required pair has a certifying chain, the conclusion is success. -/
theorem C02_no_false_failure (w : World) (r : Report) (h : resolve w = .ok r)
    (hnoconf : ∀ (i : Nat) (p : PkgNode), r.graph.nodes[i]? = some p → p.thirdParty = true →
      ∃ g, build w.store r.mapper p.name = .ok (.graph g))
    (hall : ∀ (i : Nat) (p : PkgNode), r.graph.nodes[i]? = some p → p.thirdParty = true →
      ∀ c, r.required i c → CertChain w.store r.mapper p.name c p.ver) :
    ∃ a b f, r.conclusion = .success a b f := by
  obtain ⟨acc, v⟩ := resolve_view h
  have hv : acc.violations = [] := by
    apply List.eq_nil_iff_forall_not_mem.2
    intro y hy
    rw [v.violations] at hy
    obtain ⟨x, hx, hy⟩ := List.mem_flatMap.1 hy
    obtain ⟨htp, cs, hb, -⟩ := mem_contrib_violations hy
    obtain ⟨g, hg⟩ := hnoconf x.1 x.2.1 (v.item_eq hx).1 htp
    rw [hg] at hb
    cases hb
  have hf : acc.failures = [] := by
    apply List.eq_nil_iff_forall_not_mem.2
    intro y hy
    rw [v.failures] at hy
    obtain ⟨x, hx, hy⟩ := List.mem_flatMap.1 hy
    obtain ⟨htp, g, hb, -, hne⟩ := mem_contrib_failures hy
    obtain ⟨g', hb', hfp⟩ := v.graph_of_no_violation hv hx htp
    rw [hb] at hb'
    cases hb'
    apply hne
    rw [classOf_failures_zero _ hb hfp]
    intro c hc hr
    obtain ⟨hnode, hreq⟩ := v.item_eq hx
    exact hall x.1 x.2.1 hnode htp c ⟨hc, by rw [← hreq]; exact hr⟩
  exact ⟨_, _, _, v.conclusion.trans (concl_success_of hv hf)⟩

/-- C02. The failure report is exactly the set of uncertified pairs: package `i` is listed
with criteria set `bits` iff it is a third-party package, `bits` is non-empty, and `bits` is
exactly the set of required criteria lacking a chain. -/
theorem C02_failures_exact (w : World) (r : Report) (h : resolve w = .ok r)
    (fs : List (Nat × CSet)) (hf : r.conclusion = .failVet fs) (i : Nat) (bits : CSet) :
    (i, bits) ∈ fs ↔
      ∃ p : PkgNode, r.graph.nodes[i]? = some p ∧ p.thirdParty = true ∧ bits ≠ 0 ∧
        ∀ c, bits.testBit c = true ↔ (r.required i c ∧ ¬ CertChain w.store r.mapper p.name c p.ver) := by
  obtain ⟨acc, v⟩ := resolve_view h
  rw [v.conclusion] at hf
  obtain ⟨hv, rfl⟩ := concl_failVet hf
  rw [v.failures]
  constructor
  · intro hy
    obtain ⟨x, hx, hy⟩ := List.mem_flatMap.1 hy
    obtain ⟨htp, g, hb, heq, hne⟩ := mem_contrib_failures hy
    obtain ⟨g', hb', hfp⟩ := v.graph_of_no_violation hv hx htp
    rw [hb] at hb'
    cases hb'
    obtain ⟨hnode, hreq⟩ := v.item_eq hx
    cases heq
    refine ⟨x.2.1, hnode, htp, hne, ?_⟩
    intro c
    rw [classOf_failures_testBit _ hb hfp c, hreq]
    rfl
  · rintro ⟨p, hp, htp, hne, hbits⟩
    have hx := v.item_of_node hp
    obtain ⟨g, hb, hfp⟩ := v.graph_of_no_violation hv hx htp
    have hbeq : bits = (classOf r.mapper g p (r.requirements.getD i 0)).2.2 := by
      apply Nat.eq_of_testBit_eq
      intro c
      apply Bool.eq_iff_iff.2
      rw [hbits c, classOf_failures_testBit _ hb hfp c]
      rfl
    rw [List.mem_flatMap]
    refine ⟨_, hx, ?_⟩
    rw [contrib_graph htp hb, ← hbeq]
    simp [hne]

/-- C02. The failure list names each package at most once, in package order. -/
theorem C02_failures_sorted (w : World) (r : Report) (h : resolve w = .ok r)
    (fs : List (Nat × CSet)) (hf : r.conclusion = .failVet fs) :
    (fs.map (·.1)).Pairwise (· < ·) := by
  obtain ⟨acc, v⟩ := resolve_view h
  rw [v.conclusion] at hf
  obtain ⟨-, rfl⟩ := concl_failVet hf
  rw [v.failures]
  have hsub := flatMap_fst_sublist r.items (fun x => (contrib w.store r.mapper x).failures)
    (contrib_failures_shape (s := w.store) (m := r.mapper))
  rw [show r.items.map (·.1) = List.range r.graph.nodes.length from items_fst v.hlen] at hsub
  exact List.Pairwise.sublist hsub List.pairwise_lt_range

/-- C02/C04. Violation conflicts short-circuit: the conclusion is a violation failure
exactly when some third-party crate's audit graph could not be built. -/
theorem C02_violation_priority (w : World) (r : Report) (h : resolve w = .ok r) :
    (∃ vs, r.conclusion = .failViolation vs) ↔
    (∃ (i : Nat) (p : PkgNode) (cs : List Conflict), r.graph.nodes[i]? = some p ∧ p.thirdParty = true ∧
      build w.store r.mapper p.name = .ok (.conflicts cs)) := by
  obtain ⟨acc, v⟩ := resolve_view h
  rw [v.conclusion, concl_failViolation]
  constructor
  · intro hne
    obtain ⟨y, hy⟩ := List.exists_mem_of_ne_nil _ hne
    rw [v.violations] at hy
    obtain ⟨x, hx, hy⟩ := List.mem_flatMap.1 hy
    obtain ⟨htp, cs, hb, -⟩ := mem_contrib_violations hy
    exact ⟨x.1, x.2.1, cs, (v.item_eq hx).1, htp, hb⟩
  · rintro ⟨i, p, cs, hp, htp, hb⟩ hnil
    have hmem : (i, cs) ∈ acc.violations := by
      rw [v.violations, List.mem_flatMap]
      refine ⟨_, v.item_of_node hp, ?_⟩
      rw [contrib_conflicts htp hb]
      exact List.mem_singleton.2 rfl
    rw [hnil] at hmem
    cases hmem

/-- C12, "only if": a crate reported fully audited has, for every required criterion, a
certifying chain that uses no exemption. -/
theorem C12_fully_only_if (w : World) (r : Report) (h : resolve w = .ok r)
    (a b f : List Nat) (hs : r.conclusion = .success a b f)
    (i : Nat) (hi : i ∈ f) (p : PkgNode) (hp : r.graph.nodes[i]? = some p)
    (c : Nat) (hc : r.required i c) :
    ∃ path, CertPath w.store r.mapper p.name c none path (some p.ver) ∧
      ∀ o ∈ path, o.isExemption = false := by
  obtain ⟨acc, v⟩ := resolve_view h
  rw [v.conclusion] at hs
  obtain ⟨hv, hf, -, -, rfl⟩ := concl_success hs
  rw [v.fully, v.mem_class_iff Acc.fully contrib_fully_idx hp] at hi
  have hx := v.item_of_node hp
  obtain ⟨htp, g, hb, hfp, hcl⟩ := v.fully_item hv hx hi
  have h0 := v.failures_zero hf hx htp hb
  obtain ⟨path, hpath⟩ := classOf_zero_ok h0 hc.1 hc.2
  refine ⟨path.reverse, search_ok_certPath hb hpath, ?_⟩
  intro o ho
  rw [List.mem_reverse] at ho
  cases hex : o.isExemption with
  | false => rfl
  | true =>
    exfalso
    have : (classOf r.mapper g p (r.requirements.getD i 0)).1 = true :=
      classOf_needed.2 ⟨c, hc, path, hpath, List.any_eq_true.2 ⟨o, ho, hex⟩⟩
    cases this.symm.trans hcl

/-- C12, "if": when every required criterion can be certified by a walk whose edges are
all stale audits or grants (caveat level at most `NonImportableAudit` = 1: nothing fresh, no
exemption, no unpublished link), the crate is reported fully audited. -/
theorem C12_fully_if (w : World) (r : Report) (h : resolve w = .ok r)
    (a b f : List Nat) (hs : r.conclusion = .success a b f)
    (i : Nat) (p : PkgNode) (hp : r.graph.nodes[i]? = some p) (htp : p.thirdParty = true)
    (g : Graph) (hg : build w.store r.mapper p.name = .ok (.graph g))
    (hw : ∀ c, r.required i c →
      ∃ path l, Walk g.backward .preferExemptions c (some p.ver) path l none ∧ l ≤ 1) :
    i ∈ f := by
  obtain ⟨acc, v⟩ := resolve_view h
  rw [v.conclusion] at hs
  obtain ⟨hv, hf, -, -, rfl⟩ := concl_success hs
  rw [v.fully, v.mem_class_iff Acc.fully contrib_fully_idx hp]
  have hcl : (classOf r.mapper g p (r.requirements.getD i 0)).1 = false := by
    cases hcl : (classOf r.mapper g p (r.requirements.getD i 0)).1 with
    | false => rfl
    | true =>
      exfalso
      obtain ⟨c, hc, path, hpath, hex⟩ := classOf_needed.1 hcl
      obtain ⟨l, wk, hmin⟩ := search_ok hpath
      obtain ⟨path', l', wk', hl'⟩ := hw c hc
      have hl : l ≤ 1 := Nat.le_trans (hmin path' l' wk') hl'
      obtain ⟨o, ho, hoe⟩ := List.any_eq_true.1 hex
      rw [walk_level_no_exemption wk hl o ho] at hoe
      cases hoe
  rw [contrib_graph htp hg]
  simp only [hcl, Bool.not_false, if_true, List.mem_singleton]

/-- The three success classes partition the third-party packages. -/
theorem C12_classes_partition (w : World) (r : Report) (h : resolve w = .ok r)
    (a b f : List Nat) (hs : r.conclusion = .success a b f) (i : Nat) (p : PkgNode)
    (hp : r.graph.nodes[i]? = some p) :
    (p.thirdParty = true ↔ (i ∈ a ∨ i ∈ b ∨ i ∈ f)) ∧
    ¬ (i ∈ a ∧ i ∈ b) ∧ ¬ (i ∈ a ∧ i ∈ f) ∧ ¬ (i ∈ b ∧ i ∈ f) := by
  obtain ⟨acc, v⟩ := resolve_view h
  rw [v.conclusion] at hs
  obtain ⟨hv, hf, rfl, rfl, rfl⟩ := concl_success hs
  rw [v.withEx, v.partially, v.fully, v.mem_class_iff Acc.withEx contrib_withEx_idx hp,
    v.mem_class_iff Acc.partially contrib_partially_idx hp,
    v.mem_class_iff Acc.fully contrib_fully_idx hp]
  have hx := v.item_of_node hp
  rcases contrib_classes (s := w.store) (m := r.mapper) (i, p, r.requirements.getD i 0) with
    ⟨htp, h1, h2, h3⟩ | ⟨htp, hng, -⟩ | ⟨htp, g, -, ⟨-, h1, h2, h3⟩ | ⟨-, h1, h2, h3⟩ | ⟨-, h1, h2, h3⟩⟩
  · simp only at htp
    rw [h1, h2, h3, htp]
    simp
  · exfalso
    obtain ⟨g, hb, -⟩ := v.graph_of_no_violation hv hx htp
    exact hng g hb
  all_goals
    simp only at htp
    rw [h1, h2, h3, htp]
    simp

end Vet
