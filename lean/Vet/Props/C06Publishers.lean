/-
C06, the data side: the publisher records a grant is evaluated against are exactly what crates.io
lists now — exact version, that user, that day — for crates that have a publisher-based entry and
are in the graph; an unknown publisher yields no record; imports.lock decides freshness only.
-/
import Vet.Model.Publishers
namespace Vet.Pub

/-- C06 (publisher records).  A live record exists for (version, user, day) exactly when the
registry lists that version as published by that user on that day; what imports.lock remembers
only sets the freshness flag. -/
theorem C06_publishers (c : CrateFacts) (p : Publisher) :
    p ∈ records c ↔
      ∃ v ∈ c.registry, v.user = some p.user ∧ v.version = p.version ∧ v.day = p.day ∧
        p.fresh = !c.lockVersions.contains v.version := by
  simp only [records, List.mem_filterMap]
  constructor
  · rintro ⟨v, hv, hm⟩
    cases hu : v.user with
    | none => simp [hu] at hm
    | some u =>
      simp only [hu, Option.map_some, Option.some.injEq] at hm
      subst hm
      exact ⟨v, hv, hu, rfl, rfl, rfl⟩
  · rintro ⟨v, hv, hu, h1, h2, h3⟩
    refine ⟨v, hv, ?_⟩
    obtain ⟨pv, pu, pd, pf⟩ := p
    simp only at hu h1 h2 h3
    simp [hu, h1, h2, h3]

/-- a version whose publisher crates.io does not know gives no record, whatever the lock says -/
theorem C06_unknown_publisher_no_record (c : CrateFacts) (ver : Nat)
    (h : ∀ v ∈ c.registry, v.version = ver → v.user = none) :
    ∀ p ∈ records c, p.version ≠ ver := by
  intro p hp hpv
  obtain ⟨v, hv, hu, h1, _⟩ := (C06_publishers c p).1 hp
  have := h v hv (h1.trans hpv)
  rw [this] at hu
  cases hu

/-- a crate gets a publisher table exactly when it has a publisher-based entry (own wildcard
audit, own trusted entry, or a wildcard audit an import serves now) and is a
third-party crate of the graph -/
theorem C06_publisher_table_iff (cs : List CrateFacts) (n : Nat) :
    (∃ l, (n, l) ∈ livePublishers cs) ↔ ∃ c ∈ cs, c.name = n ∧ c.relevant = true := by
  simp only [livePublishers, List.mem_map, List.mem_filter, Prod.mk.injEq]
  constructor
  · rintro ⟨_, c, ⟨hc, hr⟩, hn, _⟩
    exact ⟨c, hc, hn, hr⟩
  · rintro ⟨c, hc, hn, hr⟩
    exact ⟨records c, c, ⟨hc, hr⟩, hn, rfl⟩

/-- non-vacuity -/
theorem publishers_example :
    livePublishers [⟨1, true, false, false, false, true, [5], [⟨5, some 7, 100⟩, ⟨6, none, 101⟩, ⟨8, some 9, 120⟩]⟩,
                    ⟨2, false, false, false, false, true, [], [⟨1, some 7, 90⟩]⟩]
      = [(1, [⟨5, 7, 100, false⟩, ⟨8, 9, 120, true⟩])] := by decide +kernel

end Vet.Pub
