/-
C10, second sentence: `init` and `regenerate exemptions` leave a store that vets successfully
whenever no violation conflict exists.  STATEMENT to be proved.
-/
import Vet.Props.C10
import Vet.Props.C11
import Vet.Props.Search
import Vet.Lemmas.RegenResolve
namespace Vet

/-- C10 (regenerate).  Every crate is searched in `RegenerateExemptions` mode (whatever the
pruning flags): if the store has no violation conflict before, then the store the next run loads
never fails for missing audits — it vets successfully unless the regenerated exemptions
themselves collide with a violation entry (then the conclusion is a violation failure). -/
theorem C10_regenerate_never_missing_partial (w : World) (modeOf : Nat → UpdateMode) (u : Updates)
    (hnd : (w.store.exemptions.map (·.1)).Nodup)
    (hmode : ∀ n, (modeOf n).search = .regenerateExemptions)
    (hu : getStoreUpdates w modeOf = .ok u)
    (r : Report) (hr : resolve w = .ok r) (hnoconf : ∀ vs, r.conclusion ≠ .failViolation vs)
    (r' : Report) (hr' : resolve (w.applyLocked u) = .ok r') :
    ∀ fs, r'.conclusion ≠ .failVet fs :=
  regen_no_failVet hnd hmode hu hr hnoconf hr'

/-- the record-level content: after regenerating, every third-party package has a certifying
chain for every required criterion in the new store -/
theorem C10_regenerate_chains_partial (w : World) (modeOf : Nat → UpdateMode) (u : Updates)
    (hnd : (w.store.exemptions.map (·.1)).Nodup)
    (hmode : ∀ n, (modeOf n).search = .regenerateExemptions)
    (hu : getStoreUpdates w modeOf = .ok u)
    (r : Report) (hr : resolve w = .ok r) (hnoconf : ∀ vs, r.conclusion ≠ .failViolation vs)
    (i : Nat) (p : PkgNode) (hp : r.graph.nodes[i]? = some p) (htp : p.thirdParty = true)
    (c : Nat) (hc : r.required i c) :
    CertChain (applyLocked w.store u) r.mapper p.name c p.ver :=
  regen_node_chain hnd hmode hu hr hnoconf hp htp hc

/-! ### the hypotheses are satisfiable -/

/-- member `a` requires two unrelated custom criteria (2 and 3) of crate `b` version 0; nothing is
audited, and the only exemption is a `suggest = false` one for criterion 2 -/
def c10RegenWorld : World :=
  { table := [⟨0, []⟩, ⟨0, []⟩], md := c04Meta,
    store := { imports := [], locals := ⟨[], []⟩, trusted := [], publishers := [], unpublished := [],
               exemptions := [(1, [⟨0, [2], false⟩])],
               policy := [(0, .unversioned ⟨none, some [2, 3], none, []⟩)] } }

/-- the conclusion after `regenerate exemptions` with all pruning flags set to `b` -/
def c10AfterRegen (w : World) (b : Bool) : Option (Conclusion × List (Nat × List Exemption)) :=
  match getStoreUpdates w (fun _ => ⟨.regenerateExemptions, b, b, b⟩) with
  | .ok u => (conclusionOf (w.applyLocked u)).map (fun c => (c, u.exemptions))
  | .error _ => none

/-- unique exemption keys, a failing vet without violation conflict, an update that does not
panic — and afterwards the vet passes: the missing criterion 3 got its own exemption next to the
untouched `suggest = false` entry -/
example :
    (c10RegenWorld.store.exemptions.map (·.1)).Nodup ∧
    conclusionOf c10RegenWorld = some (.failVet [(1, 8)]) ∧
    (∀ b, c10AfterRegen c10RegenWorld b =
      some (.success [1] [] [], [(1, [⟨0, [3], true⟩, ⟨0, [2], false⟩])])) := by
  decide +kernel

/-- the "unless" of the first theorem is real: with a violation on the only version and no audit,
the regenerated exemption collides with the violation entry -/
example :
    let w : World := { c04Wildcard with store := { c04Wildcard.store with publishers := [] } }
    conclusionOf w = some (.failVet [(1, 3)]) ∧
    c10AfterRegen w true = some (.failViolation
      [(1, [.exemption none ⟨.violation [0], [1], true, false⟩ ⟨0, [1], true⟩])], [(1, [⟨0, [1], true⟩])]) := by
  decide +kernel

end Vet
