/-
C11 / C04: an automatic update must not widen what the project trusts by dropping a violation.
-/
import Vet.Props.C11
import Vet.Props.C04
namespace Vet

/-- a store with one crate (name 1, version 0, certified by an exemption) and a local violation
entry for another version that is marked non-importable -/
def c11ViolationWorld : World :=
  { table := [], md := c04Meta,
    store := { imports := [],
               locals := ⟨[(1, [⟨.violation [5], [1], false, false⟩])], []⟩,
               trusted := [], publishers := [], unpublished := [],
               exemptions := [(1, [⟨0, [1], true⟩])], policy := [] } }

/-- the local audits `prune` keeps for crate 1 in that store -/
def c11ViolationKept : Option (List (Nat × List Nat)) :=
  (getStoreUpdates c11ViolationWorld (fun _ => ⟨.preferFreshImports, true, true, true⟩)).toOption.map (·.audits)

end Vet

namespace Vet

/-- Former counterexample `C11_counterexample_violation_pruned`: on the model of the code as found,
`prune` dropped the non-importable violation (`c11ViolationKept = some [(1, [])]`, index 0 not kept;
replayed on the real code by the harness, signature C11/violation-pruned).  After the fix the same
world keeps the violation: index 0 is among the kept local audits. -/
theorem C11_fixed_violation_pruned :
    conclusionOf c11ViolationWorld = some (.success [1] [] []) ∧
    c11ViolationKept = some [(1, [0])] := by
  decide +kernel

end Vet

namespace Vet

/-- C11 / C04 after fix: no update, in any mode, drops a local violation entry: every index of a
violation in a crate's local audit list is among the kept indices. -/
theorem C11_local_violations_kept (w : World) (modeOf : Nat → UpdateMode) (u : Updates)
    (h : getStoreUpdates w modeOf = .ok u) :
    ∀ n kept, (n, kept) ∈ u.audits → ∃ l, (n, l) ∈ w.store.locals.audits ∧
      ∀ i a, l[i]? = some a → isViolation a = true → i ∈ kept := by
  obtain ⟨dg, m, reqs, required, ex0, _, _, _, _, _, rfl⟩ := getStoreUpdates_inv h
  simp only [auditsUpd]
  intro n kept hk
  obtain ⟨⟨n', l⟩, hmem, he⟩ := List.mem_map.1 hk
  have hfull : ∀ i a, l[i]? = some a → i ∈ keepIdx l (fun _ _ => true) := fun i a ha =>
    (mem_keepIdx l _ i).2 ⟨a, ha, rfl⟩
  simp only at he
  split at he
  · split at he
    · cases he
      exact ⟨l, hmem, fun i a ha hv =>
        (mem_keepIdx l _ i).2 ⟨a, ha, by simp only [hv, Bool.or_true, Bool.true_or]⟩⟩
    · cases he
      exact ⟨l, hmem, fun i a ha _ => hfull i a ha⟩
  · cases he
    exact ⟨l, hmem, fun i a ha _ => hfull i a ha⟩

end Vet
