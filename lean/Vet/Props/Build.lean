/-
Facts about `AuditGraph::build` on which C01, C02, C04 and C06 rest.
Property theorems only; helper lemmas live in Vet/Lemmas/Build*.lean.
-/
import Vet.Lemmas.Build
namespace Vet

/-- Soundness of the desugaring: every edge of the built graph that carries criterion `c`
is justified by a record of the stated kind — nothing else can create an edge. -/
theorem build_sound (s : Store) (m : Mapper) (name : Nat) (g : Graph)
    (h : build s m name = .ok (.graph g)) (t : Triple) (ht : t ∈ g.edges) (c : Nat)
    (hc : t.crit.testBit c = true) : CertEdge s m name c t.src t.origin t.dst := by
  obtain ⟨e1, e2, e4, h1, h2, h4, _, hg⟩ := build_graph_inv h
  rw [hg, List.mem_append, List.mem_append, List.mem_append] at ht
  rcases ht with ((ht | ht) | ht) | ht
  · rw [auditEdges_mem h1] at ht
    obtain ⟨imp, idx, a, cs, hmem, hcs, hr⟩ := ht
    rcases hr with ⟨v, hk, rfl⟩ | ⟨f, to, hk, rfl⟩
    · exact CertEdge.full hmem hk hcs hc
    · exact CertEdge.delta hmem hk hcs hc
  · rw [publisherEdges_mem h2] at ht
    obtain ⟨p, pi, hmem, hr⟩ := ht
    rcases hr with ⟨imp, idx, w, cs, hw, hga, hcs, rfl⟩ | ⟨e, cs, he, hga, hcs, rfl⟩
    · exact CertEdge.wildcard hw hmem hga hcs hc
    · exact CertEdge.trusted he hmem hga hcs hc
  · rw [unpubEdges_mem] at ht
    obtain ⟨u, i, hmem, rfl⟩ := ht
    refine CertEdge.unpublished hmem ?_
    simpa [Mapper.all, all_testBit] using hc
  · rw [exemptionEdges_mem h4] at ht
    obtain ⟨x, i, cs, hmem, hcs, rfl⟩ := ht
    exact CertEdge.exemption hmem hcs hc

/-- Completeness of the desugaring: every certifying record appears as an edge carrying
the criterion. -/
theorem build_complete (s : Store) (m : Mapper) (name : Nat) (g : Graph)
    (h : build s m name = .ok (.graph g)) (c : Nat) (a b : Option Nat) (o : Origin)
    (he : CertEdge s m name c a o b) :
    ∃ t ∈ g.edges, t.src = a ∧ t.origin = o ∧ t.dst = b ∧ t.crit.testBit c = true := by
  obtain ⟨e1, e2, e4, h1, h2, h4, _, hg⟩ := build_graph_inv h
  rw [hg]
  simp only [List.mem_append]
  cases he with
  | @full imp idx a v cs hmem hk hcs hc =>
    refine ⟨⟨none, some v, cs, auditOrigin imp idx a, freshness a.fresh false⟩, ?_, rfl, rfl, rfl, hc⟩
    exact Or.inl (Or.inl (Or.inl
      ((auditEdges_mem h1 _).2 ⟨imp, idx, a, cs, hmem, hcs, Or.inl ⟨v, hk, rfl⟩⟩)))
  | @delta imp idx a f t cs hmem hk hcs hc =>
    refine ⟨⟨some f, some t, cs, auditOrigin imp idx a, freshness a.fresh false⟩, ?_, rfl, rfl, rfl, hc⟩
    exact Or.inl (Or.inl (Or.inl
      ((auditEdges_mem h1 _).2 ⟨imp, idx, a, cs, hmem, hcs, Or.inr ⟨f, t, hk, rfl⟩⟩)))
  | @wildcard imp idx pi w p cs hw hp hga hcs hc =>
    refine ⟨⟨none, some p.version, cs, .wildcard imp idx pi, freshness w.fresh p.fresh⟩,
      ?_, rfl, rfl, rfl, hc⟩
    exact Or.inl (Or.inl (Or.inr
      ((publisherEdges_mem h2 _).2 ⟨p, pi, hp, Or.inl ⟨imp, idx, w, cs, hw, hga, hcs, rfl⟩⟩)))
  | @trusted pi e p cs he hp hga hcs hc =>
    refine ⟨⟨none, some p.version, cs, .trusted pi, freshness p.fresh false⟩,
      ?_, rfl, rfl, rfl, hc⟩
    exact Or.inl (Or.inl (Or.inr
      ((publisherEdges_mem h2 _).2 ⟨p, pi, hp, Or.inr ⟨e, cs, he, hga, hcs, rfl⟩⟩)))
  | @unpublished i u hmem hlt =>
    refine ⟨⟨some u.auditedAs, some u.version, m.all, .unpublished i, freshness u.fresh false⟩,
      ?_, rfl, rfl, rfl, ?_⟩
    · exact Or.inl (Or.inr ((unpubEdges_mem m _ _).2 ⟨u, i, hmem, rfl⟩))
    · simpa [Mapper.all, all_testBit] using hlt
  | @exemption i x cs hmem hcs hc =>
    refine ⟨⟨none, some x.version, cs, .exemption i, 0⟩, ?_, rfl, rfl, rfl, hc⟩
    exact Or.inr ((exemptionEdges_mem h4 _).2 ⟨x, i, cs, hmem, hcs, rfl⟩)

/-- the backward adjacency is the forward one reversed -/
theorem build_mirror (g : Graph) (a b : Option Nat) (crit : CSet) (o : Origin) (f : Nat) :
    (⟨b, crit, o, f⟩ : Edge) ∈ g.forward a ↔ (⟨a, crit, o, f⟩ : Edge) ∈ g.backward b := by
  simp only [Graph.forward, Graph.backward, List.mem_map, List.mem_filter, beq_iff_eq,
    Edge.mk.injEq]
  constructor
  · rintro ⟨t, ⟨ht, hs⟩, hd, hc, ho, hf⟩
    exact ⟨t, ⟨ht, hd⟩, hs, hc, ho, hf⟩
  · rintro ⟨t, ⟨ht, hd⟩, hs, hc, ho, hf⟩
    exact ⟨t, ⟨ht, hs⟩, hd, hc, ho, hf⟩

/-- C04, second sentence, exemptions: an exemption for a version matched by a violation,
claiming (the closure of) one listed violation criterion, makes `build` report a conflict —
whether or not the exemption would be used. -/
theorem C04_exemption_conflict (s : Store) (m : Mapper) (name : Nat)
    (vsrc : Option Nat) (vidx : Nat) (viol : Audit) (matched : List Nat) (vc : Nat)
    (x : Exemption) (cs vs : CSet)
    (hv : (vsrc, vidx, viol) ∈ allAudits s name) (hk : viol.kind = .violation matched)
    (hvc : vc ∈ viol.criteria) (hx : x ∈ getL name s.exemptions)
    (hm : matched.contains x.version = true)
    (hcs : m.fromList x.criteria = .ok cs) (hvs : m.fromList [vc] = .ok vs)
    (hsub : CSet.containsSet cs vs = true)
    (r : BuildResult) (hb : build s m name = .ok r) : ∃ cfs, r = .conflicts cfs ∧ cfs ≠ [] := by
  obtain ⟨e1, e2, e4, cfs, h1, h2, h4, h5, hr⟩ := build_ok_inv hb
  rcases hr with ⟨rfl, _⟩ | ⟨hne, rfl⟩
  · exfalso
    obtain ⟨vss, hvss, hex, _⟩ := violationConflicts_nil h5 hv hk
    have hno := exemptionConflicts_nil hex hx hcs
    rw [hits_of_mem (violationSets_mem hvss hvc hvs) hsub, hm] at hno
    cases hno
  · exact ⟨cfs, rfl, hne⟩

/-- C04, second sentence, audits (own or imported, full or delta): same for an audit
touching a matched version. -/
theorem C04_audit_conflict (s : Store) (m : Mapper) (name : Nat)
    (vsrc : Option Nat) (vidx : Nat) (viol : Audit) (matched : List Nat) (vc : Nat)
    (asrc : Option Nat) (aidx : Nat) (a : Audit) (cs vs : CSet)
    (hv : (vsrc, vidx, viol) ∈ allAudits s name) (hk : viol.kind = .violation matched)
    (hvc : vc ∈ viol.criteria) (ha : (asrc, aidx, a) ∈ allAudits s name)
    (hm : touches matched a.kind = true)
    (hcs : m.fromList a.criteria = .ok cs) (hvs : m.fromList [vc] = .ok vs)
    (hsub : CSet.containsSet cs vs = true)
    (r : BuildResult) (hb : build s m name = .ok r) : ∃ cfs, r = .conflicts cfs ∧ cfs ≠ [] := by
  obtain ⟨e1, e2, e4, cfs, h1, h2, h4, h5, hr⟩ := build_ok_inv hb
  rcases hr with ⟨rfl, _⟩ | ⟨hne, rfl⟩
  · exfalso
    obtain ⟨vss, hvss, _, hau⟩ := violationConflicts_nil h5 hv hk
    have hno := auditConflicts_nil hau ha hcs
    rw [hits_of_mem (violationSets_mem hvss hvc hvs) hsub, hm] at hno
    cases hno
  · exact ⟨cfs, rfl, hne⟩

/-- C04, first sentence, restricted to audit and exemption edges (the part that holds on the
current tree): in a graph that was built without conflict, no full/delta audit or exemption
edge touching a version matched by a violation claims the closure of a listed violation
criterion. -/
theorem C04_no_claiming_edge_partial (s : Store) (m : Mapper) (name : Nat) (g : Graph)
    (h : build s m name = .ok (.graph g))
    (vsrc : Option Nat) (vidx : Nat) (viol : Audit) (matched : List Nat) (vc : Nat) (vs : CSet)
    (hv : (vsrc, vidx, viol) ∈ allAudits s name) (hk : viol.kind = .violation matched)
    (hvc : vc ∈ viol.criteria) (hvs : m.fromList [vc] = .ok vs)
    (t : Triple) (ht : t ∈ g.edges) (ho : t.origin.isAuditOrExemption = true)
    (v : Nat) (hvm : matched.contains v = true) (hend : t.dst = some v ∨ t.src = some v) :
    CSet.containsSet t.crit vs = false := by
  obtain ⟨e1, e2, e4, h1, h2, h4, h5, hg⟩ := build_graph_inv h
  obtain ⟨vss, hvss, hex, hau⟩ := violationConflicts_nil h5 hv hk
  have hvin := violationSets_mem hvss hvc hvs
  cases hcon : CSet.containsSet t.crit vs with
  | false => rfl
  | true =>
    exfalso
    have hh := hits_of_mem hvin hcon
    rw [hg, List.mem_append, List.mem_append, List.mem_append] at ht
    rcases ht with ((ht | ht) | ht) | ht
    · rw [auditEdges_mem h1] at ht
      obtain ⟨imp, idx, a, cs, hmem, hcs, hr⟩ := ht
      have hno := auditConflicts_nil hau hmem hcs
      rcases hr with ⟨v', hk', rfl⟩ | ⟨f, to, hk', rfl⟩
      · rw [hh, hk'] at hno
        simp only [touches, Bool.true_and] at hno
        rcases hend with hd | hs
        · cases hd
          rw [hvm] at hno
          cases hno
        · cases hs
      · rw [hh, hk'] at hno
        simp only [touches, Bool.true_and, Bool.or_eq_false_iff] at hno
        rcases hend with hd | hs
        · cases hd
          rw [hvm] at hno
          cases hno.2
        · cases hs
          rw [hvm] at hno
          cases hno.1
    · rw [publisherEdges_mem h2] at ht
      obtain ⟨p, pi, hmem, hr⟩ := ht
      rcases hr with ⟨imp, idx, w, cs, hw, hga, hcs, rfl⟩ | ⟨e, cs, he, hga, hcs, rfl⟩
      · cases ho
      · cases ho
    · rw [unpubEdges_mem] at ht
      obtain ⟨u, i, hmem, rfl⟩ := ht
      cases ho
    · rw [exemptionEdges_mem h4] at ht
      obtain ⟨x, i, cs, hmem, hcs, rfl⟩ := ht
      have hno := exemptionConflicts_nil hex (List.fst_mem_of_mem_zipIdx hmem) hcs
      rw [hh] at hno
      rcases hend with hd | hs
      · cases hd
        simp only [Bool.true_and] at hno
        rw [hvm] at hno
        cases hno
      · cases hs

/-- C06: a wildcard-audit edge exists exactly when the publisher record `pi` of this crate
matches entry `(imp, idx)` in user id and date window; it leads from "nothing" to exactly the
published version and carries exactly the entry's criteria. -/
theorem C06_wildcard_edge_iff (s : Store) (m : Mapper) (name : Nat) (g : Graph)
    (h : build s m name = .ok (.graph g)) (imp : Option Nat) (idx pi : Nat)
    (a d : Option Nat) (cs : CSet) :
    (∃ t ∈ g.edges, t.origin = .wildcard imp idx pi ∧ t.src = a ∧ t.dst = d ∧ t.crit = cs) ↔
    (∃ w p, (imp, idx, w) ∈ allWildcards s name ∧ (p, pi) ∈ (getL name s.publishers).zipIdx ∧
      w.user = p.user ∧ w.start ≤ p.day ∧ p.day < w.stop ∧
      a = none ∧ d = some p.version ∧ m.fromList w.criteria = .ok cs) := by
  obtain ⟨e1, e2, e4, h1, h2, h4, _, hg⟩ := build_graph_inv h
  rw [hg]
  constructor
  · rintro ⟨t, ht, ho, rfl, rfl, rfl⟩
    rw [List.mem_append, List.mem_append, List.mem_append] at ht
    rcases ht with ((ht | ht) | ht) | ht
    · rw [auditEdges_mem h1] at ht
      obtain ⟨imp', idx', a', c, hmem, hc, hr⟩ := ht
      rcases hr with ⟨v, hk, rfl⟩ | ⟨f, to, hk, rfl⟩ <;>
        cases imp' <;> simp [auditOrigin] at ho
    · rw [publisherEdges_mem h2] at ht
      obtain ⟨p, pi', hmem, hr⟩ := ht
      rcases hr with ⟨imp', idx', w, c, hw, hga, hc, rfl⟩ | ⟨e, c, he, hga, hc, rfl⟩
      · cases ho
        obtain ⟨hu, hs, he⟩ := grantApplies_iff.1 hga
        exact ⟨w, p, hw, hmem, hu, hs, he, rfl, rfl, hc⟩
      · cases ho
    · rw [unpubEdges_mem] at ht
      obtain ⟨u, i, hmem, rfl⟩ := ht
      cases ho
    · rw [exemptionEdges_mem h4] at ht
      obtain ⟨x, i, c, hmem, hc, rfl⟩ := ht
      cases ho
  · rintro ⟨w, p, hw, hp, hu, hs, he, rfl, rfl, hc⟩
    refine ⟨⟨none, some p.version, cs, .wildcard imp idx pi, freshness w.fresh p.fresh⟩,
      ?_, rfl, rfl, rfl, rfl⟩
    simp only [List.mem_append]
    exact Or.inl (Or.inl (Or.inr ((publisherEdges_mem h2 _).2
      ⟨p, pi, hp, Or.inl ⟨imp, idx, w, cs, hw, grantApplies_iff.2 ⟨hu, hs, he⟩, hc, rfl⟩⟩)))

/-- C06: a trusted-publisher edge exists exactly when some entry of the *local* trusted table
matches publisher record `pi` of this crate. -/
theorem C06_trusted_edge_iff (s : Store) (m : Mapper) (name : Nat) (g : Graph)
    (h : build s m name = .ok (.graph g)) (pi : Nat) (a d : Option Nat) (cs : CSet) :
    (∃ t ∈ g.edges, t.origin = .trusted pi ∧ t.src = a ∧ t.dst = d ∧ t.crit = cs) ↔
    (∃ e p, e ∈ getL name s.trusted ∧ (p, pi) ∈ (getL name s.publishers).zipIdx ∧
      e.user = p.user ∧ e.start ≤ p.day ∧ p.day < e.stop ∧
      a = none ∧ d = some p.version ∧ m.fromList e.criteria = .ok cs) := by
  obtain ⟨e1, e2, e4, h1, h2, h4, _, hg⟩ := build_graph_inv h
  rw [hg]
  constructor
  · rintro ⟨t, ht, ho, rfl, rfl, rfl⟩
    rw [List.mem_append, List.mem_append, List.mem_append] at ht
    rcases ht with ((ht | ht) | ht) | ht
    · rw [auditEdges_mem h1] at ht
      obtain ⟨imp', idx', a', c, hmem, hc, hr⟩ := ht
      rcases hr with ⟨v, hk, rfl⟩ | ⟨f, to, hk, rfl⟩ <;>
        cases imp' <;> simp [auditOrigin] at ho
    · rw [publisherEdges_mem h2] at ht
      obtain ⟨p, pi', hmem, hr⟩ := ht
      rcases hr with ⟨imp', idx', w, c, hw, hga, hc, rfl⟩ | ⟨e, c, he, hga, hc, rfl⟩
      · cases ho
      · cases ho
        obtain ⟨hu, hs, hst⟩ := grantApplies_iff.1 hga
        exact ⟨e, p, he, hmem, hu, hs, hst, rfl, rfl, hc⟩
    · rw [unpubEdges_mem] at ht
      obtain ⟨u, i, hmem, rfl⟩ := ht
      cases ho
    · rw [exemptionEdges_mem h4] at ht
      obtain ⟨x, i, c, hmem, hc, rfl⟩ := ht
      cases ho
  · rintro ⟨e, p, he, hp, hu, hs, hst, rfl, rfl, hc⟩
    refine ⟨⟨none, some p.version, cs, .trusted pi, freshness p.fresh false⟩,
      ?_, rfl, rfl, rfl, rfl⟩
    simp only [List.mem_append]
    exact Or.inl (Or.inl (Or.inr ((publisherEdges_mem h2 _).2
      ⟨p, pi, hp, Or.inr ⟨e, cs, he, grantApplies_iff.2 ⟨hu, hs, hst⟩, hc, rfl⟩⟩)))

/-- C06: records of other crates are never consulted: `build` for `name` only depends on the
per-name slices of the store. -/
theorem C06_other_crates_irrelevant (s s' : Store) (m : Mapper) (name : Nat)
    (h1 : allAudits s name = allAudits s' name) (h2 : allWildcards s name = allWildcards s' name)
    (h3 : getL name s.trusted = getL name s'.trusted)
    (h4 : getL name s.publishers = getL name s'.publishers)
    (h5 : getL name s.unpublished = getL name s'.unpublished)
    (h6 : getL name s.exemptions = getL name s'.exemptions) :
    build s m name = build s' m name := by
  simp only [build, h1, h2, h3, h4, h5, h6]

end Vet
