/-
C18 — concurrent invocations on one store serialise: no lost update, no torn read.
For every number of invocations, every reader/writer assignment and every interleaving.
Property theorems only; helper lemmas live in Vet/Lemmas/Lock.lean.
-/
import Vet.Lemmas.Lock
namespace Vet.Lock

/-- Mutual exclusion: at most one invocation is between taking the lock and releasing it. -/
theorem C18_mutex (s : State) (h : Reachable s) (p q : Nat) (pp pq : Proc)
    (hp : s.procs[p]? = some pp) (hq : s.procs[q]? = some pq)
    (cp : inCritical pp = true) (cq : inCritical pq = true) : p = q := by
  obtain ⟨log, writers, sched, rfl⟩ := h
  exact (inv_reachable (log := log) (writers := writers) sched).mutex hp hq cp cq

/-- No torn read: whenever an invocation is about to read a store file, that file is whole. -/
theorem C18_no_torn_read (s : State) (h : Reachable s) (p : Nat) (pp : Proc)
    (hp : s.procs[p]? = some pp) :
    (pp.pc = 1 → s.files.cfg ≠ .torn) ∧ (pp.pc = 2 → s.files.audits ≠ .torn) ∧
    (pp.pc = 3 → s.files.imports ≠ .torn) := by
  obtain ⟨log, writers, sched, rfl⟩ := h
  have hI := inv_reachable (log := log) (writers := writers) sched
  refine ⟨fun h1 => ?_, fun h2 => ?_, fun h3 => ?_⟩
  · obtain ⟨done, _, hH⟩ := hI.holder_ok hp (by omega) (by omega)
    obtain ⟨_, _, _, _, _, _, hc, _, _⟩ := hH
    rw [hc, h1]; simp
  · obtain ⟨done, _, hH⟩ := hI.holder_ok hp (by omega) (by omega)
    obtain ⟨_, _, _, _, _, _, _, ha, _⟩ := hH
    rw [ha, h2]; simp
  · obtain ⟨done, _, hH⟩ := hI.holder_ok hp (by omega) (by omega)
    obtain ⟨_, _, _, _, _, _, _, _, hi⟩ := hH
    rw [hi, h3]; simp

/-- what an invocation loaded is never torn -/
theorem C18_loaded_whole (s : State) (h : Reachable s) (p : Nat) (pp : Proc)
    (hp : s.procs[p]? = some pp) (hpc : 4 ≤ pp.pc) :
    pp.gotCfg ≠ .torn ∧ pp.gotAudits ≠ .torn ∧ pp.gotImports ≠ .torn := by
  obtain ⟨log, writers, sched, rfl⟩ := h
  have hI := inv_reachable (log := log) (writers := writers) sched
  obtain ⟨before, after, _, h1, h2, h3⟩ := hI.loaded hp hpc
  rw [h1, h2, h3]; simp

/-- Serialisation / no lost update: whenever nobody holds the lock, every store file holds the
initial content followed by the ids of exactly the writers that committed, in lock order. -/
theorem C18_serial (log : List Nat) (writers : List Bool) (sched : List Nat)
    (s : State) (hs : s = run (init log writers) sched) (hfree : s.holder = none) :
    s.files.cfg = .full (log ++ committed s) ∧ s.files.audits = .full (log ++ committed s) ∧
    s.files.imports = .full (log ++ committed s) := by
  subst hs
  have hI := inv_reachable (log := log) (writers := writers) sched
  rw [hI.committed_eq hfree]
  exact (hI.free hfree).2

/-- every invocation that took the lock loaded exactly the files as they stood at that time:
the initial content followed by the writers that had committed before it -/
theorem C18_reads_latest (log : List Nat) (writers : List Bool) (sched : List Nat)
    (s : State) (hs : s = run (init log writers) sched) (p : Nat) (pp : Proc)
    (hp : s.procs[p]? = some pp) (hpc : 4 ≤ pp.pc) :
    ∃ before, before ++ [p] <+: s.order ∧
      pp.gotCfg = .full (log ++ before.filter (fun q => (writers.getD q false))) := by
  subst hs
  have hI := inv_reachable (log := log) (writers := writers) sched
  obtain ⟨before, after, hord, h1, _, _⟩ := hI.loaded hp hpc
  exact ⟨before, ⟨after, by rw [hord]; simp⟩, h1⟩

/-- non-vacuity: two writers and a reader, fully interleaved schedule, both updates survive -/
example : (run (init [] [true, false, true]) [0, 2, 1, 0, 0, 0, 2, 0, 0, 0, 0, 0, 0, 0, 1, 1, 1, 1, 1, 2, 2, 2, 2, 2, 2, 2, 2, 2, 2, 2, 2, 2, 1]).files.cfg
    = .full [0, 2] := by decide +kernel

end Vet.Lock
