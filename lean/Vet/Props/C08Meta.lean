/-
C08: "... exempt only while no crates.io crate of the same name with a matching description or
repository exists".  What "matching" means, and what the consistency check makes of it.
-/
import Vet.Props.C08
namespace Vet.Reg

/-- the metadata match exactly when crates.io declares a description the package shares, or
declares a repository the package shares -/
theorem C08_considerSame_iff (reg loc : CrateMeta) :
    considerSame reg loc = true ↔
      (∃ d, reg.description = some d ∧ loc.description = some d) ∨
      (∃ r, reg.repository = some r ∧ loc.repository = some r) := by
  obtain ⟨rd, rr⟩ := reg
  obtain ⟨ld, lr⟩ := loc
  cases rd <;> cases rr <;> cases ld <;> cases lr <;> simp [considerSame] <;> grind

/-- a shared description is enough, whatever the two repository fields say -/
theorem C08_same_description_matches (reg loc : CrateMeta) (d : Nat)
    (hr : reg.description = some d) (hl : loc.description = some d) : considerSame reg loc = true :=
  (C08_considerSame_iff reg loc).2 (.inl ⟨d, hr, hl⟩)

/-- a shared repository is enough, whatever the two descriptions say -/
theorem C08_same_repository_matches (reg loc : CrateMeta) (r : Nat)
    (hr : reg.repository = some r) (hl : loc.repository = some r) : considerSame reg loc = true :=
  (C08_considerSame_iff reg loc).2 (.inr ⟨r, hr, hl⟩)

/-- fields crates.io leaves out never match (two absent descriptions are not "the same") -/
theorem C08_absent_fields_never_match (loc : CrateMeta) : considerSame ⟨none, none⟩ loc = false := by
  simp [considerSame]

/-- a first-party package without an explicit choice whose name crates.io knows and whose
description it shares makes the unlocked consistency check fail - whatever its repository -/
theorem C08_matching_copy_needs_choice (pe : List (Nat × Option Nat)) (pkgs : List FirstParty)
    (p : FirstParty) (hp : p ∈ pkgs) (hnone : p.auditAs = none) (hpub : p.published.isSome = true)
    (reg loc : CrateMeta) (d : Nat) (hr : reg.description = some d) (hl : loc.description = some d)
    (hm : p.metaMatch = considerSame reg loc) :
    checkAuditAs pe pkgs ≠ [] := by
  intro h
  have h2 := ((C08_checks pe pkgs).1 h).2 p hp (by simp [hnone])
  have hs := C08_same_description_matches reg loc d hr hl
  exact h2.1 (by simp [hpub, hm, hs]) hnone

/-- premises satisfiable: the fork that points `repository` at itself -/
example : considerSame ⟨some 1, some 2⟩ ⟨some 1, some 3⟩ = true ∧
    checkAuditAs [] [⟨0, 1, false, none, some [1], considerSame ⟨some 1, some 2⟩ ⟨some 1, some 3⟩⟩]
      = [.needsAuditAs 0 1] := by decide

end Vet.Reg
