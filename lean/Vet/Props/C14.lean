/-
C14 — stores round-trip unchanged through a canonical format (value-tree level: the
hand-written (de)serialisers).  The TOML text layer, the layout pass and the serde derives are
exercised on the real code by the harness, not modelled.
Property theorems only; helper lemmas live in Vet/Lemmas/Serde.lean.
-/
import Vet.Lemmas.Serde
namespace Vet.Serde

/-- a criteria / who / aggregated-from list is read back exactly as written -/
theorem C14_strOrVec_roundtrip (l : List Nat) : decStrOrVec (encStrOrVec l) = some l :=
  decStrOrVec_encStrOrVec l

/-- no two different lists are written alike -/
theorem C14_strOrVec_injective (l₁ l₂ : List Nat) (h : encStrOrVec l₁ = encStrOrVec l₂) : l₁ = l₂ :=
  encStrOrVec_inj h

/-- writing is canonical: writing what was read from a file cargo-vet wrote reproduces it -/
theorem C14_strOrVec_canonical (l : List Nat) (l' : List Nat)
    (h : decStrOrVec (encStrOrVec l) = some l') : encStrOrVec l' = encStrOrVec l := by
  rw [decStrOrVec_encStrOrVec] at h
  rw [Option.some.inj h]

/-- an absent policy list and an empty one are kept apart -/
theorem C14_optStrOrVec_roundtrip (o : Option (List Nat)) :
    decOptStrOrVec (encOptStrOrVec o) = some o := by
  cases o with
  | none => rfl
  | some l => simp only [encOptStrOrVec, decOptStrOrVec, decStrOrVec_encStrOrVec, Option.map_some]

/-- an audit entry — kind, criteria, who, notes, importable flag, provenance — is read back as
the same entry from its flattened written form -/
theorem C14_audit_roundtrip (a : AuditEntry) : fromAll (toAll a) = some a := by
  obtain ⟨who, criteria, kind, importable, notes, agg⟩ := a
  cases kind <;> cases who <;> cases agg <;> cases importable <;>
    simp [fromAll, toAll, decStrOrVec_encStrOrVec]

/-- a written entry has exactly one of version / delta / violation -/
theorem C14_audit_one_kind (a : AuditEntry) :
    ((toAll a).version.isSome && !(toAll a).delta.isSome && !(toAll a).violation.isSome) ||
    (!(toAll a).version.isSome && (toAll a).delta.isSome && !(toAll a).violation.isSome) ||
    (!(toAll a).version.isSome && !(toAll a).delta.isSome && (toAll a).violation.isSome) = true := by
  obtain ⟨who, criteria, kind, importable, notes, agg⟩ := a
  cases kind <;> rfl

/-- well-formed policy tables: crate names pairwise distinct, no empty version map -/
def WFPolicy {E : Type} (p : List (Nat × PkgPolicy E)) : Prop :=
  (p.map (·.1)).Nodup ∧ ∀ n vs, (n, PkgPolicy.versioned vs) ∈ p → vs ≠ []

/-- the policy table round-trips through its `name` / `name:version` keys -/
theorem C14_policy_roundtrip {E : Type} (p : List (Nat × PkgPolicy E)) (hwf : WFPolicy p) :
    decPolicy (encPolicy p) [] = some p := by
  have := decPolicy_encPolicy_acc p [] hwf.1 hwf.2
  rwa [List.nil_append] at this

/-- the representational collapse that delimits `WFPolicy`: a versioned policy with an empty
version map is written as nothing and read back as no policy at all -/
theorem C14_policy_empty_versioned_collapses :
    decPolicy (encPolicy [(1, (PkgPolicy.versioned [] : PkgPolicy Nat))]) [] = some [] := by decide +kernel

/-- mixing `name` and `name:version` keys for one crate is refused -/
theorem C14_policy_mixed_refused :
    decPolicy [(Key.plain 1, 7), (Key.withVersion 1 2, 8)] ([] : List (Nat × PkgPolicy Nat)) = none := by decide +kernel

/-- `tidy` is idempotent, leaves no empty list and sorts every list -/
theorem C14_tidy_idem (t : List (Nat × List Nat)) : tidy (tidy t) = tidy t :=
  tidy_tidy t

theorem C14_tidy_no_empty (t : List (Nat × List Nat)) : ∀ e ∈ tidy t, e.2 ≠ [] := by
  intro e he
  obtain ⟨l, _, hne, heq⟩ := mem_tidy.1 he
  rw [heq]
  exact fun h => hne (sortNat_eq_nil.1 h)

theorem C14_tidy_sorted (t : List (Nat × List Nat)) : ∀ e ∈ tidy t, e.2.Pairwise (· ≤ ·) := by
  intro e he
  obtain ⟨l, _, _, heq⟩ := mem_tidy.1 he
  rw [heq]
  exact sortNat_pairwise l

theorem C14_tidy_perm (t : List (Nat × List Nat)) (k : Nat) (l : List Nat) (h : (k, l) ∈ t) (hne : l ≠ []) :
    ∃ l', (k, l') ∈ tidy t ∧ ∀ x, l'.count x = l.count x :=
  ⟨sortNat l, mem_tidy.2 ⟨l, h, hne, rfl⟩, count_sortNat l⟩

end Vet.Serde
