/-
C12, the prune half: after `cargo vet prune` an exemption (and each criterion it lists) remains
only if some in-graph version of that crate cannot otherwise be certified for a required
criterion.  Helper lemmas live in Vet/Lemmas/PruneNeeded*.lean.
-/
import Vet.Props.C10
import Vet.Props.C11
import Vet.Props.Search
import Vet.Lemmas.PruneNeededMain
namespace Vet

/-- C12 (prune).  Let the store vet successfully and let the update for crate `n` search in
prune mode (`PreferFreshImports`) with exemption pruning on — what `cargo vet prune` does.  Then
every exemption left for `n`, and every criterion `c` it lists, is needed: some in-graph
third-party version `p` of `n` requires `c`, and EVERY walk certifying `c` for `p.ver` in `n`'s
audit graph passes through an edge of caveat level >= 6 in prune mode, i.e. an exemption, a
locked unpublished-version link or a fresh exemption — audits, wildcard/trusted grants and
importable peer entries (levels 0, 1, 4, 5; and 3 for a just-discovered unpublished link) do not
suffice. -/
theorem C12_prune_exemption_needed_partial (w : World) (modeOf : Nat → UpdateMode) (u : Updates)
    (hnd : (w.store.exemptions.map (·.1)).Nodup)
    (hu : getStoreUpdates w modeOf = .ok u)
    (r : Report) (hr : resolve w = .ok r) (a b f : List Nat) (hs : r.conclusion = .success a b f)
    (n : Nat) (hsearch : (modeOf n).search = .preferFreshImports)
    (hprune : (modeOf n).pruneExemptions = true)
    (xs : List Exemption) (hx : (n, xs) ∈ u.exemptions) (x : Exemption) (hxm : x ∈ xs)
    (c : Nat) (hc : c ∈ x.criteria) :
    ∃ (i : Nat) (p : PkgNode) (g : Graph),
      r.graph.nodes[i]? = some p ∧ p.name = n ∧ p.thirdParty = true ∧ r.required i c ∧
      build w.store r.mapper n = .ok (.graph g) ∧
      (∀ path l, Walk g.backward .preferFreshImports c (some p.ver) path l none → 6 ≤ l) ∧
      (∃ (idx : Nat) (x₀ : Exemption), (x₀, idx) ∈ (getL n w.store.exemptions).zipIdx ∧
        x₀.version = x.version) :=
  prune_exemption_needed hnd hu hr hs hsearch hprune hx hxm hc

/-- The hypotheses are satisfiable and the conclusion is not vacuous: crate `b` (name 1) version 0
is certified by an exemption only; the store passes, its exemption keys are unique, and `prune`
(mode `PreferFreshImports`, all pruning on) keeps the exemption with its criterion. -/
example :
    (([(1, [⟨0, [1], true⟩])] : List (Nat × List Exemption)).map (·.1)).Nodup ∧
    conclusionOf {
      table := [], md := c04Meta,
      store := {
        imports := [], locals := ⟨[], []⟩, trusted := [], publishers := [], unpublished := [],
        exemptions := [(1, [⟨0, [1], true⟩])], policy := [] } } = some (.success [1] [] []) ∧
    (getStoreUpdates {
      table := [], md := c04Meta,
      store := {
        imports := [], locals := ⟨[], []⟩, trusted := [], publishers := [], unpublished := [],
        exemptions := [(1, [⟨0, [1], true⟩])], policy := [] } }
      (fun _ => ⟨.preferFreshImports, true, true, true⟩)).toOption.map (·.exemptions) =
      some [(1, [⟨0, [1], true⟩])] := by
  decide +kernel

/-- Conversely, with a full safe-to-deploy audit of that version next to the exemption, not every
walk passes an exemption, and `prune` drops the exemption (the table entry disappears). -/
example :
    conclusionOf {
      table := [], md := c04Meta,
      store := {
        imports := [], locals := ⟨[(1, [⟨.full 0, [1], true, false⟩])], []⟩, trusted := [],
        publishers := [], unpublished := [],
        exemptions := [(1, [⟨0, [1], true⟩])], policy := [] } } = some (.success [] [] [1]) ∧
    (getStoreUpdates {
      table := [], md := c04Meta,
      store := {
        imports := [], locals := ⟨[(1, [⟨.full 0, [1], true, false⟩])], []⟩, trusted := [],
        publishers := [], unpublished := [],
        exemptions := [(1, [⟨0, [1], true⟩])], policy := [] } }
      (fun _ => ⟨.preferFreshImports, true, true, true⟩)).toOption.map (·.exemptions) = some [] := by
  decide +kernel

end Vet
