/-
C17 — suggestions heal: certifying what is suggested makes vet pass.  The final de-duplication
of suggestions used to lose criteria when two in-graph versions of a crate got the same proposed
diff with different missing criteria (C17/dedup-drops-criteria, fixed): since the fix only items
that also agree on the criteria are merged; the former witness is `C17_fixed_dedup` below.
Property theorems only; helper lemmas live in Vet/Lemmas/Suggest.lean.
-/
import Vet.Lemmas.Suggest
namespace Vet

open Vet.Sug

/-- every candidate delta connects, for every failed criterion at once, a version reachable
from the root to a version from which the target is reachable -/
theorem C17_candidate_connects (hasSources : Option Nat → Bool) (fails : List Failure)
    (fr ft : List (Option Nat)) (h : reachable hasSources fails = some (fr, ft))
    (c : Option Nat × Nat) (hc : c ∈ candidates fr ft) :
    ∀ F ∈ fails, c.1 ∈ F.fromRoot ∧ some c.2 ∈ F.fromTarget := by
  intro F hF
  obtain ⟨h1, h2⟩ := reachable_mem h
  obtain ⟨hc1, hc2⟩ := candidates_mem hc
  exact ⟨h1 _ hc1 F hF, h2 _ hc2 F hF⟩

/-- with the git-revision rewrite: either the candidate connects directly, or it targets the
nearest published version and the extra delta from that version to the git revision is
suggested with it -/
theorem C17_candidate_connects_git (hasSources : Option Nat → Bool) (fails : List Failure)
    (fr ft : List (Option Nat)) (h : reachable hasSources fails = some (fr, ft))
    (target : Nat) (published : Option (Option Nat)) (ft' : List (Option Nat))
    (extra : Option (Option Nat × Nat)) (hg : gitRewrite target published fr ft = (ft', extra))
    (c : Option Nat × Nat) (hc : c ∈ candidates fr ft') :
    (∀ F ∈ fails, c.1 ∈ F.fromRoot) ∧
    ((∀ F ∈ fails, some c.2 ∈ F.fromTarget) ∨
     (published = some (some c.2) ∧ (extra = some (some c.2, target) ∨ some c.2 ∈ ft))) := by
  obtain ⟨h1, h2⟩ := reachable_mem h
  obtain ⟨hc1, hc2⟩ := candidates_mem hc
  refine ⟨fun F hF => h1 _ hc1 F hF, ?_⟩
  rcases gitRewrite_mem hg hc2 with hm | ⟨hp, he⟩
  · exact Or.inl (fun F hF => h2 _ hm F hF)
  · exact Or.inr ⟨hp, Or.inl he⟩

/-- the recommendation is one of the candidates -/
theorem C17_recommendation_is_candidate (hasSources : Option Nat → Bool) (cost : Option Nat × Nat → Nat)
    (target : Nat) (published : Option (Option Nat)) (fails : List Failure) (hne : fails ≠ [])
    (c : Option Nat × Nat) (extra : Option (Option Nat × Nat))
    (h : suggestDelta hasSources cost target published fails = some (c, extra)) :
    ∃ fr ft, reachable hasSources fails = some (fr, ft) ∧
      c ∈ candidates fr (gitRewrite target published fr ft).1 ∧ extra = (gitRewrite target published fr ft).2 := by
  obtain ⟨fr, ft, hr⟩ := reachable_ne_nil (hasSources := hasSources) hne
  refine ⟨fr, ft, hr, ?_⟩
  unfold suggestDelta at h
  rw [hr] at h
  simp only at h
  split at h
  · cases h
  · rename_i m hm
    cases h
    exact ⟨pickMin_mem hm, rfl⟩

/-- Healing, at the level of the audit graph: if the search for criterion `c` failed with
reachable sets `fromRoot` / `fromTarget`, then after adding any edge `f → t` carrying `c` with
`f ∈ fromRoot` and `t ∈ fromTarget` the search succeeds. -/
theorem C17_heals (g : Graph) (c v : Nat) (r t : List (Option Nat))
    (hf : search g c v .preferExemptions = .fail r t)
    (f : Option Nat) (to : Nat) (hfr : f ∈ r) (hto : some to ∈ t)
    (crit : CSet) (hc : crit.testBit c = true) (o : Origin) (fresh : Nat) :
    ∃ p, search ⟨g.edges ++ [⟨f, some to, crit, o, fresh⟩]⟩ c v .preferExemptions = .ok p := by
  obtain ⟨hr, ht⟩ := search_fail_sets hf
  obtain ⟨p₁, l₁, w₁⟩ := hr f hfr
  obtain ⟨p₂, l₂, w₂⟩ := ht (some to) hto
  obtain ⟨p₃, l₃, w₃⟩ := Walk.mirror (by decide) w₁
  have hsub := backward_append_sub g [⟨f, some to, crit, o, fresh⟩]
  have w₂' := w₂.mono hsub
  have w₃' := w₃.mono hsub
  have hmem : (⟨f, crit, o, fresh⟩ : Edge) ∈
      (Graph.mk (g.edges ++ [⟨f, some to, crit, o, fresh⟩])).backward (some to) :=
    backward_of_mem (g := Graph.mk (g.edges ++ [⟨f, some to, crit, o, fresh⟩]))
      (t := ⟨f, some to, crit, o, fresh⟩) (List.mem_append_right _ List.mem_cons_self)
  have st : Step (Graph.mk (g.edges ++ [⟨f, some to, crit, o, fresh⟩])).backward .preferExemptions c
      (some to) o (edgeCaveat .preferExemptions ⟨f, crit, o, fresh⟩) f :=
    Step.edge (e := ⟨f, crit, o, fresh⟩) hmem (by rw [usable_prefer]; exact hc)
  obtain ⟨l₄, w₄⟩ := Walk.append (Walk.snoc w₂' st) w₃'
  exact search_ok_of_walk w₄

/-- adding edges never breaks a criterion that already had a path -/
theorem C17_monotone (g : Graph) (c v : Nat) (p : List Origin)
    (h : search g c v .preferExemptions = .ok p) (extra : List Triple) :
    ∃ p', search ⟨g.edges ++ extra⟩ c v .preferExemptions = .ok p' := by
  obtain ⟨l, w⟩ := search_ok_walk_mode h
  exact search_ok_of_walk (w.mono (backward_append_sub g extra))

/-- `certify` pre-selects exactly the failed criteria for which the delta connects a version
reachable from the root to one from which the needed version is reachable -/
theorem C17_certify_criteria (fails : List (Nat × Failure)) (from_ : Option Nat) (to c : Nat) :
    c ∈ suggestedCriteria fails from_ to ↔
      ∃ F, (c, F) ∈ fails ∧ some to ∈ F.fromTarget ∧ from_ ∈ F.fromRoot := by
  unfold suggestedCriteria
  constructor
  · intro h
    obtain ⟨⟨c', F⟩, hF, rfl⟩ := List.mem_map.1 h
    obtain ⟨hm, hb⟩ := List.mem_filter.1 hF
    simp only [Bool.and_eq_true, List.contains_iff_mem] at hb
    exact ⟨F, hm, hb.1, hb.2⟩
  · rintro ⟨F, hm, h1, h2⟩
    refine List.mem_map.2 ⟨(c, F), List.mem_filter.2 ⟨hm, ?_⟩, rfl⟩
    simp only [Bool.and_eq_true, List.contains_iff_mem]
    exact ⟨h1, h2⟩

/-- de-duplication only drops items; every dropped item has a surviving twin with the same crate,
the same diff and the same criteria -/
theorem C17_dedup_keeps_twin (l : List Item) (x : Item) (hx : x ∈ l) :
    ∃ y ∈ dedup l, y.name = x.name ∧ y.from_ = x.from_ ∧ y.to = x.to ∧ y.criteria = x.criteria := by
  have key : ∃ y ∈ dedup l, sameSuggestion y x = true := by
    cases l with
    | nil => cases hx
    | cons a rest => exact dedupFrom_twin rest a x hx
  obtain ⟨y, hy, hs⟩ := key
  simp only [sameSuggestion, Bool.and_eq_true, decide_eq_true_eq] at hs
  exact ⟨y, hy, hs.1.1.1, hs.1.1.2, hs.1.2, hs.2⟩

/-- Former finding C17/dedup-drops-criteria (F9), fixed: two versions of one crate get the same
proposed diff with different missing criteria; both suggestions survive (before the fix only the
first criteria set did) -/
theorem C17_fixed_dedup :
    dedup [⟨0, 5, none, 1, 1, 1⟩, ⟨1, 5, none, 1, 2, 1⟩] =
      [⟨0, 5, none, 1, 1, 1⟩, ⟨1, 5, none, 1, 2, 1⟩] := by decide +kernel

/-- and true duplicates are still merged -/
example : dedup [⟨0, 5, none, 1, 1, 1⟩, ⟨1, 5, none, 1, 1, 1⟩] = [⟨0, 5, none, 1, 1, 1⟩] := by
  decide +kernel

end Vet
