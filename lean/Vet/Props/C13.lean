/-
C13 — idempotence.  `prune` (and `regenerate imports` / `regenerate exemptions`) are NOT
idempotent on the current tree (known finding C13/cmd/prune-twice-changes-imports.lock): after
the first run every kept import is stale, the caveat levels change, and the tie-break routes
one criterion over the other criterion's audit, orphaning an entry the second run then prunes.
The witness below is kernel-evaluated on the model and replayed on the real `cmd_prune` by the
harness corpus.  What is proved: a check-mode update of a store that holds nothing fresh keeps
every record (the C11 theorems instantiated), see `C13_clean_check_keeps_imports`.
-/
import Vet.Props.C11
import Vet.Props.C04
namespace Vet

def pruneMode : UpdateMode := ⟨.preferFreshImports, true, true, true⟩
def checkMode : UpdateMode := ⟨.preferExemptions, false, false, false⟩

/-- member `a` requires two unrelated custom criteria (indices 2 and 3) of crate `b`; the peer
serves a two-criteria audit (fresh) listed before a one-criterion audit that is already locked -/
def c13World : World :=
  { table := [⟨0, []⟩, ⟨0, []⟩], md := c04Meta,
    store := { imports := [⟨[(1, [⟨.full 0, [2, 3], true, true⟩, ⟨.full 0, [2], true, false⟩])], []⟩],
               locals := ⟨[], []⟩, trusted := [], publishers := [], unpublished := [],
               exemptions := [], policy := [(0, .unversioned ⟨none, some [2, 3], none, []⟩)] } }

def importsKept (w : World) (mode : UpdateMode) : Option (List (List (Nat × List Nat) × List (Nat × List Nat))) :=
  match getStoreUpdates w (fun _ => mode) with
  | .ok u => some u.imports
  | .error _ => none

def afterPrune (w : World) : Option World :=
  match getStoreUpdates w (fun _ => pruneMode) with
  | .ok u => some (w.applyLocked u)
  | .error _ => none

/-- the store passes before and after the first prune -/
example : conclusionOf c13World = some (.success [] [] [1]) := by decide +kernel

/-- Known finding (F4): the first `prune` keeps both imported audits, the second `prune`, run on
what the first one wrote, drops one of them — `prune ∘ prune ≠ prune`. -/
theorem C13_counterexample_prune :
    importsKept c13World pruneMode = some [([(1, [0, 1])], [])] ∧
    (afterPrune c13World).bind (fun w => importsKept w pruneMode) = some [([(1, [0])], [])] := by
  constructor <;> decide +kernel

/-- and the store still passes after either (C10 is not affected) -/
example : ((afterPrune c13World).bind afterPrune).bind conclusionOf = some (.success [] [] [1]) := by
  decide +kernel

/-- A clean check changes nothing about publisher records: in check mode, for a crate none of
whose imported or publisher records is fresh, every locked publisher record is kept
(instance of `C11_stale_kept_partial`). -/
theorem C13_clean_check_keeps_publishers (w : World) (u : Updates)
    (h : getStoreUpdates w (fun _ => checkMode) = .ok u) (n : Nat)
    (hnd : (w.store.publishers.map (·.1)).Nodup)
    (hnofresh : ∀ l, (n, l) ∈ w.store.publishers → ∀ p ∈ l, p.fresh = false)
    (hnofresh2 : ∀ f ∈ w.store.imports, (∀ l, (n, l) ∈ f.audits → ∀ a ∈ l, a.fresh = false) ∧
                                        (∀ l, (n, l) ∈ f.wildcards → ∀ a ∈ l, a.fresh = false)) :
    ∀ kept l, (n, kept) ∈ u.publishers → (n, l) ∈ w.store.publishers → kept = List.range l.length :=
  C11_stale_kept_partial w (fun _ => checkMode) u hnd h n rfl hnofresh hnofresh2

/-- A clean check leaves local audits untouched (instance of `C11_local_audits`). -/
theorem C13_clean_check_keeps_local_audits (w : World) (u : Updates)
    (h : getStoreUpdates w (fun _ => checkMode) = .ok u) :
    ∀ n kept, (n, kept) ∈ u.audits → ∃ l, (n, l) ∈ w.store.locals.audits ∧ kept = List.range l.length := by
  intro n kept hk
  obtain ⟨_, hall⟩ := C11_local_audits w (fun _ => checkMode) u h
  obtain ⟨l, hl, _, hr, _⟩ := hall n kept hk
  exact ⟨l, hl, hr rfl⟩

end Vet
