/-
What `Store.wf` (checked by the driver on every world of the correspondence run) gives the
property theorems: sorted, hence duplicate-free, table keys.
-/
import Vet.Model.WF
namespace Vet

theorem sortedKeys_pairwise {β : Type} (t : List (Nat × β)) (h : sortedKeys t = true) :
    (t.map (·.1)).Pairwise (· < ·) := by
  induction t with
  | nil => exact List.Pairwise.nil
  | cons x rest ih =>
    cases rest with
    | nil => simp
    | cons y rest' =>
      obtain ⟨a, xv⟩ := x
      obtain ⟨b, yv⟩ := y
      simp only [sortedKeys, Bool.and_eq_true, decide_eq_true_eq] at h
      have ih' := ih h.2
      simp only [List.map_cons, List.pairwise_cons] at ih' ⊢
      refine ⟨?_, ih'⟩
      intro c hc
      rcases List.mem_cons.1 hc with rfl | hc
      · exact h.1
      · exact Nat.lt_trans h.1 (ih'.1 c hc)

theorem pairwise_lt_nodup (l : List Nat) (h : l.Pairwise (· < ·)) : l.Nodup := by
  unfold List.Nodup
  exact h.imp (fun hab => Nat.ne_of_lt hab)

theorem sortedKeys_nodup {β : Type} (t : List (Nat × β)) (h : sortedKeys t = true) :
    (t.map (·.1)).Nodup := pairwise_lt_nodup _ (sortedKeys_pairwise t h)

/-- every uniqueness / sortedness hypothesis of the property theorems follows from `Store.wf` -/
theorem Store.wf_spec (s : Store) (h : s.wf = true) :
    (s.exemptions.map (·.1)).Nodup ∧ (s.publishers.map (·.1)).Nodup ∧
    (s.unpublished.map (·.1)).Nodup ∧
    (∀ f ∈ s.imports, (f.audits.map (·.1)).Nodup ∧ (f.wildcards.map (·.1)).Nodup) ∧
    (s.locals.audits.map (·.1)).Pairwise (· < ·) ∧
    (s.exemptions.map (·.1)).Pairwise (· < ·) := by
  simp only [Store.wf, Bool.and_eq_true, List.all_eq_true] at h
  obtain ⟨⟨⟨⟨⟨⟨⟨himp, hla⟩, _⟩, _⟩, hpub⟩, hunp⟩, hex⟩, _⟩ := h
  refine ⟨sortedKeys_nodup _ hex, sortedKeys_nodup _ hpub, sortedKeys_nodup _ hunp, ?_,
    sortedKeys_pairwise _ hla, sortedKeys_pairwise _ hex⟩
  intro f hf
  have := himp f hf
  exact ⟨sortedKeys_nodup _ this.1, sortedKeys_nodup _ this.2⟩

end Vet
