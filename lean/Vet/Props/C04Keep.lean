/-
C04 across runs: a violation a peer serves for a crate in the graph is never dropped from
imports.lock by an update, whatever the mode — so a later `--locked` run still sees it.
-/
import Vet.Props.C11
import Vet.Lemmas.KeepViol
namespace Vet

/-- every imported violation entry of a crate whose name occurs in the dependency graph is kept
by `get_store_updates`, in every per-package mode (fresh or stale, pruning or not) -/
theorem C04_update_keeps_violations (w : World) (modeOf : Nat → UpdateMode) (u : Updates)
    (hu : getStoreUpdates w modeOf = .ok u)
    (dg : DepGraph) (hdg : DepGraph.new w.md w.store.policy = .ok dg)
    (n : Nat) (hn : n ∈ dg.nodes.map (·.name))
    (ii : Nat) (f : AFile) (hf : w.store.imports[ii]? = some f)
    (ri : Nat) (l : List Audit) (hl : f.audits[ri]? = some (n, l))
    (i : Nat) (a : Audit) (ha : l[i]? = some a) (hv : isViolation a = true) :
    ∃ k, u.imports[ii]? = some k ∧ ∃ kept, k.1[ri]? = some (n, kept) ∧ i ∈ kept := by
  obtain ⟨dg', m, reqs, required, ex0, hdg', _, _, hreq, _, rfl⟩ := getStoreUpdates_inv hu
  rw [hdg] at hdg'
  cases hdg'
  obtain ⟨k, hk, hrow⟩ := importsUpd_row w.store modeOf required ii f hf ri n l hl
  refine ⟨k, hk, _, hrow, ?_⟩
  rw [mem_keepIdx]
  exact ⟨a, ha, impAuditPred_violation w.store modeOf required ii n i a hv
    (allRequired_isSome hreq n hn)⟩

/-- the hypotheses are satisfiable: on `keepViolWorld` under full pruning the update succeeds, the
graph is built and contains crate 1, import 0 row 0 is crate 1's row, and entries 1 and 2 of it
are violations (one fresh, one locked) -/
example :
    (match getStoreUpdates keepViolWorld (fun _ => keepViolPrune),
           DepGraph.new keepViolWorld.md keepViolWorld.store.policy with
     | .ok _, .ok dg => decide (1 ∈ dg.nodes.map (·.name))
     | _, _ => false) = true ∧
    (∃ f l, keepViolWorld.store.imports[0]? = some f ∧ f.audits[0]? = some (1, l) ∧
      (∃ a, l[1]? = some a ∧ isViolation a = true ∧ a.fresh = true) ∧
      (∃ a, l[2]? = some a ∧ isViolation a = true ∧ a.fresh = false)) := by
  refine ⟨by decide +kernel, _, _, rfl, rfl, ⟨_, rfl, rfl, rfl⟩, ⟨_, rfl, rfl, rfl⟩⟩

/-- and the conclusion on that world: both violations of crate 1 are kept and the unneeded clean
audit is pruned, while for crate 2 — not in the graph, so outside the theorem — the fresh
violation is dropped (the hypothesis `hn` cannot be removed) -/
example :
    (match getStoreUpdates keepViolWorld (fun _ => keepViolPrune) with
     | .ok u => some u.imports
     | .error _ => none) = some [([(1, [1, 2]), (2, [])], [])] := by
  decide +kernel

end Vet
