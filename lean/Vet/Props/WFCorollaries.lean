/-
The main update / command theorems restated for well-formed worlds: the uniqueness and
sortedness hypotheses of the `_partial` statements are discharged by `Store.wf`, a decidable
predicate the driver checks on every world of the correspondence run (so every store the real
code was observed to hold satisfies it).
-/
import Vet.Props.WF
import Vet.Props.CommandsAsk
namespace Vet

/-- C10 per command, for well-formed stores -/
theorem C10_commands_wf (c : Cmd) (hc : c.regenerates = false) (w : World) (u : Updates)
    (hwf : w.store.wf = true) (hu : c.update w = .ok u)
    (r : Report) (hr : resolve w = .ok r) (a b f : List Nat) (hs : r.conclusion = .success a b f) :
    ∃ r' a' b' f', resolve (w.applyLocked u) = .ok r' ∧ r'.conclusion = .success a' b' f' :=
  C10_commands_partial c hc w u (Store.wf_spec _ hwf).1 hu r hr a b f hs

/-- C09 for the check command, for well-formed stores -/
theorem C09_check_run_wf (w w' : World) (hwf : w.store.wf = true)
    (h : Cmd.check.run w = .ok (some w')) :
    ∃ r' a' b' f', resolve w' = .ok r' ∧ r'.conclusion = .success a' b' f' :=
  C09_check_run_partial w w' (Store.wf_spec _ hwf).1 h

/-- C12 (kept clause) per command, for well-formed stores -/
theorem C12_command_exemption_needed_wf (cmd : Cmd) (w : World) (u : Updates)
    (hwf : w.store.wf = true) (hu : cmd.update w = .ok u)
    (r : Report) (hr : resolve w = .ok r) (a b f : List Nat) (hs : r.conclusion = .success a b f)
    (n : Nat) (hp : cmd.prunesExemptionsOf n = true)
    (xs : List Exemption) (hx : (n, xs) ∈ u.exemptions) (x : Exemption) (hxm : x ∈ xs)
    (c : Nat) (hc : c ∈ x.criteria) :
    ∃ (i : Nat) (p : PkgNode) (g : Graph),
      r.graph.nodes[i]? = some p ∧ p.name = n ∧ p.thirdParty = true ∧ r.required i c ∧
      build w.store r.mapper n = .ok (.graph g) ∧
      (∀ path l, Walk g.backward .preferFreshImports c (some p.ver) path l none → 6 ≤ l) ∧
      (∃ (idx : Nat) (x₀ : Exemption), (x₀, idx) ∈ (getL n w.store.exemptions).zipIdx ∧
        x₀.version = x.version) :=
  C12_command_exemption_needed_partial cmd w u (Store.wf_spec _ hwf).1 hu r hr a b f hs n hp xs hx x hxm c hc

/-- C10 for what certify pushes, for well-formed stores -/
theorem C10_certify_ask_keeps_passing_wf (w : World) (k : Nat) (a : Audit)
    (hwf : w.store.wf = true)
    (r : Report) (hr : resolve w = .ok r) (x y z : List Nat) (hsucc : r.conclusion = .success x y z)
    (r' : Report) (hr' : resolve (w.ask (.audit k a)) = .ok r')
    (hnoconf : ∀ (i : Nat) (p : PkgNode), r'.graph.nodes[i]? = some p → p.thirdParty = true →
      ∃ g, build (w.ask (.audit k a)).store r'.mapper p.name = .ok (.graph g)) :
    ∃ x' y' z', r'.conclusion = .success x' y' z' :=
  C10_certify_ask_keeps_passing w k a (Store.wf_spec _ hwf).2.2.2.2.1 r hr x y z hsucc r' hr' hnoconf

/-- pushing an entry keeps the store well-formed (so the corollaries apply again after `ask`) -/
theorem sortedKeys_pushEntry {β : Type} (k : Nat) (x : β) (t : List (Nat × List β))
    (h : sortedKeys t = true) : sortedKeys (pushEntry k x t) = true := by
  induction t with
  | nil => simp [pushEntry, sortedKeys]
  | cons hd tl ih =>
    obtain ⟨k', l⟩ := hd
    unfold pushEntry
    by_cases h1 : k' = k
    · subst h1
      cases tl with
      | nil => simp [sortedKeys]
      | cons y ys =>
        obtain ⟨b, yv⟩ := y
        simpa [sortedKeys] using h
    · by_cases h2 : k < k'
      · simp only [h1, h2, if_false, if_true]
        simp only [sortedKeys, Bool.and_eq_true, decide_eq_true_eq]
        exact ⟨h2, h⟩
      · simp only [h1, h2, if_false]
        have hlt : k' < k := by omega
        cases tl with
        | nil => simp [pushEntry, sortedKeys, hlt]
        | cons y ys =>
          obtain ⟨b, yv⟩ := y
          simp only [sortedKeys, Bool.and_eq_true, decide_eq_true_eq] at h
          have ih' := ih h.2
          -- the head of `pushEntry k x ((b, yv) :: ys)` has key `b` or `k`, both above `k'`
          unfold pushEntry at ih' ⊢
          by_cases h3 : b = k
          · subst h3
            simp only [if_true] at ih' ⊢
            simp only [sortedKeys, Bool.and_eq_true, decide_eq_true_eq]
            exact ⟨h.1, ih'⟩
          · by_cases h4 : k < b
            · simp only [h3, h4, if_false, if_true] at ih' ⊢
              have ih'' := ih'
              simp only [sortedKeys, Bool.and_eq_true, decide_eq_true_eq] at ih'' ⊢
              exact ⟨hlt, ih''⟩
            · simp only [h3, h4, if_false] at ih' ⊢
              simp only [sortedKeys, Bool.and_eq_true, decide_eq_true_eq]
              exact ⟨h.1, ih'⟩

theorem Store.ask_wf (s : Store) (a : Ask) (h : s.wf = true) : (s.ask a).wf = true := by
  simp only [Store.wf, Bool.and_eq_true] at h ⊢
  obtain ⟨⟨⟨⟨⟨⟨⟨himp, hla⟩, hlw⟩, htr⟩, hpub⟩, hunp⟩, hex⟩, hpol⟩ := h
  cases a with
  | audit n x => exact ⟨⟨⟨⟨⟨⟨⟨himp, sortedKeys_pushEntry n x _ hla⟩, hlw⟩, htr⟩, hpub⟩, hunp⟩, hex⟩, hpol⟩
  | wildcard n x => exact ⟨⟨⟨⟨⟨⟨⟨himp, hla⟩, sortedKeys_pushEntry n x _ hlw⟩, htr⟩, hpub⟩, hunp⟩, hex⟩, hpol⟩
  | trusted n x => exact ⟨⟨⟨⟨⟨⟨⟨himp, hla⟩, hlw⟩, sortedKeys_pushEntry n x _ htr⟩, hpub⟩, hunp⟩, hex⟩, hpol⟩
  | exemption n x => exact ⟨⟨⟨⟨⟨⟨⟨himp, hla⟩, hlw⟩, htr⟩, hpub⟩, hunp⟩, sortedKeys_pushEntry n x _ hex⟩, hpol⟩

end Vet

namespace Vet

/-- C10 for `certify`, end to end on the model: a well-formed store that vets, the audit the user
certifies pushed into audits.toml (`ask`), then the clean-up (`Cmd.run`): unless the new audit
itself contradicts a violation, what is written vets successfully. -/
theorem C10_certify_end_to_end_wf (w : World) (pkg : Nat) (a : Audit) (w' : World)
    (hwf : w.store.wf = true)
    (r : Report) (hr : resolve w = .ok r) (x y z : List Nat) (hsucc : r.conclusion = .success x y z)
    (r₁ : Report) (hr₁ : resolve (w.ask (.audit pkg a)) = .ok r₁)
    (hnoconf : ∀ (i : Nat) (p : PkgNode), r₁.graph.nodes[i]? = some p → p.thirdParty = true →
      ∃ g, build (w.ask (.audit pkg a)).store r₁.mapper p.name = .ok (.graph g))
    (hrun : (Cmd.certify pkg).run (w.ask (.audit pkg a)) = .ok (some w')) :
    ∃ r' a' b' f', resolve w' = .ok r' ∧ r'.conclusion = .success a' b' f' := by
  obtain ⟨x', y', z', hs₁⟩ := C10_certify_ask_keeps_passing_wf w pkg a hwf r hr x y z hsucc r₁ hr₁ hnoconf
  have hwf₁ : (w.ask (.audit pkg a)).store.wf = true := Store.ask_wf w.store (.audit pkg a) hwf
  unfold Cmd.run at hrun
  cases hu : (Cmd.certify pkg).update (w.ask (.audit pkg a)) with
  | error e => simp [hu] at hrun
  | ok u =>
    simp only [hu, Except.ok.injEq, Option.some.injEq] at hrun
    subst hrun
    exact C10_commands_wf (.certify pkg) rfl _ u hwf₁ hu r₁ hr₁ x' y' z' hs₁

end Vet
