/-
C09 / C10 — store updates never break a passing store.
Property theorems only; helper lemmas live in Vet/Lemmas/Preserve*.lean.

Three of the four statements originally planned here (`C10_update_preserves_success`,
`C09_check_then_locked`, `C10_no_new_conflict`) are FALSE on the model as stated, because the
model's tables are association lists that may repeat a key: with two `exemptions` entries for
one crate name, lookups see the first while `exemptionTable` drops an entry that becomes empty,
exposing the second (see `C10_counterexample_duplicate_keys` below; the original statements are
kept in Vet/Props/C10_todo.lean).  The real code keeps these tables in sorted maps, so keys
are unique; under that hypothesis — stated explicitly as
`(w.store.exemptions.map (·.1)).Nodup` — all three hold and are proved here as `*_partial`.
No uniqueness hypothesis is needed for any other table.
-/
import Vet.Lemmas.Preserve
import Vet.Props.C04
namespace Vet

/-- C10 (core), with unique exemption-table keys. If the store vets successfully, then after any
non-regenerating update — every combination of per-package search mode and pruning flags — the
store that the next `--locked` run loads still vets successfully. -/
theorem C10_update_preserves_success_partial (w : World) (modeOf : Nat → UpdateMode) (u : Updates)
    (hnd : (w.store.exemptions.map (·.1)).Nodup)
    (hmode : ∀ n, (modeOf n).search ≠ .regenerateExemptions)
    (hu : getStoreUpdates w modeOf = .ok u)
    (r : Report) (hr : resolve w = .ok r) (a b f : List Nat) (hs : r.conclusion = .success a b f) :
    ∃ r' a' b' f', resolve (w.applyLocked u) = .ok r' ∧ r'.conclusion = .success a' b' f' :=
  update_preserves_success hnd hmode hu hr hs

/-- C09, with unique exemption-table keys. The automatic update after a successful unlocked check
(check mode for every package) leaves files with which the locked check succeeds. -/
theorem C09_check_then_locked_partial (w : World) (u : Updates)
    (hnd : (w.store.exemptions.map (·.1)).Nodup)
    (hu : getStoreUpdates w (fun _ => ⟨.preferExemptions, false, false, false⟩) = .ok u)
    (r : Report) (hr : resolve w = .ok r) (a b f : List Nat) (hs : r.conclusion = .success a b f) :
    ∃ r' a' b' f', resolve (w.applyLocked u) = .ok r' ∧ r'.conclusion = .success a' b' f' :=
  C10_update_preserves_success_partial w _ u hnd (fun _ => by decide) hu r hr a b f hs

/-- With unique exemption-table keys the update never introduces a violation conflict: a crate
whose audit graph builds without conflict before the update builds without conflict after it. -/
theorem C10_no_new_conflict_partial (w : World) (modeOf : Nat → UpdateMode) (u : Updates) (m : Mapper)
    (hnd : (w.store.exemptions.map (·.1)).Nodup)
    (hm : Mapper.new w.table = .ok m)
    (hmode : ∀ n, (modeOf n).search ≠ .regenerateExemptions)
    (hu : getStoreUpdates w modeOf = .ok u) (name : Nat) (g : Graph)
    (hb : build w.store m name = .ok (.graph g)) :
    ∃ g', build (applyLocked w.store u) m name = .ok (.graph g') :=
  no_new_conflict hnd hm hmode hu name ⟨g, hb⟩

/-- Every record on a path chosen for a minimal required criterion is kept by the update:
the required-entries map of a crate contains every entry the chosen paths stand for. -/
theorem C10_required_contains_path (g : Graph) (m : Mapper) (mode : Mode)
    (pkgs : List (Nat × CSet)) (r : Required)
    (h : requiredForPkgs g m mode pkgs [] = .ok (some r))
    (ver : Nat) (req : CSet) (hp : (ver, req) ∈ pkgs) (c : Nat) (hc : c ∈ m.minimal req) :
    ∃ path, search g c ver mode = .ok path ∧
      ∀ o ∈ path, ∀ e ∈ originEntries o, ∃ s, r.get? e = some s ∧ s.testBit c = true :=
  (requiredForPkgs_spec (S := fun _ _ => True) pkgs [] r h (ReqProv.nil _)
    (fun _ _ _ _ _ _ _ _ _ _ _ => trivial)).2.2 ver req hp c hc

/-- After the update, every third-party package still has a conflict-free audit graph and a
certifying chain for every required criterion (the record-level content of C10). -/
theorem C10_chains_preserved (w : World) (modeOf : Nat → UpdateMode) (u : Updates)
    (hnd : (w.store.exemptions.map (·.1)).Nodup)
    (hmode : ∀ n, (modeOf n).search ≠ .regenerateExemptions)
    (hu : getStoreUpdates w modeOf = .ok u)
    (r : Report) (hr : resolve w = .ok r) (a b f : List Nat) (hs : r.conclusion = .success a b f)
    (i : Nat) (p : PkgNode) (hp : r.graph.nodes[i]? = some p) (htp : p.thirdParty = true)
    (c : Nat) (hc : r.required i c) :
    CertChain (applyLocked w.store u) r.mapper p.name c p.ver :=
  (node_preserved hnd hmode hu hr hs hp htp).2 c hc

/-! ### why the uniqueness hypothesis is needed -/

/-- `b` (name 1) version 0 has a full safe-to-deploy audit; a violation matches version 5 only.
The exemption table has two entries for name 1: an empty one (the one lookups see) and one
exempting version 5. -/
def c10DupKeys : World :=
  { table := [], md := c04Meta,
    store := { imports := [],
               locals := ⟨[(1, [⟨.violation [5], [1], true, false⟩, ⟨.full 0, [1], true, false⟩])], []⟩,
               trusted := [], publishers := [], unpublished := [],
               exemptions := [(1, []), (1, [⟨5, [1], true⟩])], policy := [] } }

/-- the conclusion after the check-mode update (`none` if anything panics) -/
def c10AfterCheckUpdate (w : World) : Option Conclusion :=
  match getStoreUpdates w (fun _ => ⟨.preferExemptions, false, false, false⟩) with
  | .ok u => conclusionOf (w.applyLocked u)
  | .error _ => none

/-- Counterexample to the statements without the uniqueness hypothesis: the store passes; the
check-mode update drops the emptied first exemption entry, the second becomes visible and
conflicts with the violation, and the locked re-check fails.  Kernel-evaluated on the model. -/
theorem C10_counterexample_duplicate_keys :
    conclusionOf c10DupKeys = some (.success [] [] [1]) ∧
    c10AfterCheckUpdate c10DupKeys = some (.failViolation
      [(1, [.exemption none ⟨.violation [5], [1], true, false⟩ ⟨5, [1], true⟩])]) := by
  decide +kernel

/-- the unrestricted C09 / C10 statement is refuted by `c10DupKeys` -/
theorem C10_unrestricted_false :
    ¬ (∀ (w : World) (u : Updates),
        getStoreUpdates w (fun _ => ⟨.preferExemptions, false, false, false⟩) = .ok u →
        ∀ (r : Report), resolve w = .ok r → ∀ (a b f : List Nat), r.conclusion = .success a b f →
        ∃ r' a' b' f', resolve (w.applyLocked u) = .ok r' ∧ r'.conclusion = .success a' b' f') := by
  intro hall
  have hcx := C10_counterexample_duplicate_keys
  unfold c10AfterCheckUpdate conclusionOf at hcx
  obtain ⟨h1, h2⟩ := hcx
  cases hu : getStoreUpdates c10DupKeys (fun _ => ⟨.preferExemptions, false, false, false⟩) with
  | error e => rw [hu] at h2; cases h2
  | ok u =>
    rw [hu] at h2
    cases hr : resolve c10DupKeys with
    | error e => rw [hr] at h1; cases h1
    | ok r =>
      rw [hr] at h1
      simp only [Option.some.injEq] at h1
      obtain ⟨r', a', b', f', hr', hc'⟩ := hall c10DupKeys u hu r hr _ _ _ h1
      simp only [hr', Option.some.injEq] at h2
      rw [hc'] at h2
      cases h2

end Vet
