/-
C16 — aggregation is faithful: the merged file means the union of its sources.
Property theorems only; helper lemmas live in Vet/Lemmas/Aggregate.lean.
-/
import Vet.Lemmas.Aggregate
namespace Vet.Agg

/-- all entries recorded for package `k` in a table -/
def entriesOf (k : Nat) (t : List (Nat × List Entry)) : List Entry :=
  (t.filter (fun e => e.1 == k)).flatMap (·.2)

/-- all criteria definitions of the sources, in source order, tagged with their source url -/
def allDefs (srcs : List Source) : List (Nat × Crit) :=
  srcs.flatMap (fun s => s.criteria.map (fun c => (s.url, c)))

def sameDef (a b : Crit) : Bool := a.desc == b.desc && a.descUrl == b.descUrl && a.implies == b.implies

/-! bridges to the local copies used in `Vet.Lemmas.Aggregate` (the definitions above live in this
file, so the lemma file cannot mention them) -/
private theorem entriesOf_eq_ent : entriesOf = ent := rfl
private theorem allDefs_eq_defsOf : allDefs = defsOf := rfl
private theorem sameDef_eq_same : sameDef = same := rfl

/-- The audits of the aggregate are exactly the importable audits of its sources, each tagged
with the source it came from — nothing else. -/
theorem C16_audits (srcs : List Source) (r : Result) (h : aggregate srcs = some r) (k : Nat) (e : Entry) :
    e ∈ entriesOf k r.audits ↔
      ∃ s ∈ srcs, ∃ e₀ ∈ entriesOf k s.audits, e₀.importable = true ∧ e = tag s.url e₀ := by
  obtain ⟨rfl, -⟩ := (aggregate_eq_some srcs r).1 h
  have := mem_audits_foldl srcs ⟨[], [], [], [], 0⟩ k e
  simpa [ent_nil, entriesOf_eq_ent] using this

/-- wildcard audits: all of them, tagged -/
theorem C16_wildcards (srcs : List Source) (r : Result) (h : aggregate srcs = some r) (k : Nat) (e : Entry) :
    e ∈ entriesOf k r.wildcards ↔ ∃ s ∈ srcs, ∃ e₀ ∈ entriesOf k s.wildcards, e = tag s.url e₀ := by
  obtain ⟨rfl, -⟩ := (aggregate_eq_some srcs r).1 h
  have := mem_wildcards_foldl srcs ⟨[], [], [], [], 0⟩ k e
  simpa [ent_nil, entriesOf_eq_ent] using this

/-- trusted entries: all of them, tagged -/
theorem C16_trusted (srcs : List Source) (r : Result) (h : aggregate srcs = some r) (k : Nat) (e : Entry) :
    e ∈ entriesOf k r.trusted ↔ ∃ s ∈ srcs, ∃ e₀ ∈ entriesOf k s.trusted, e = tag s.url e₀ := by
  obtain ⟨rfl, -⟩ := (aggregate_eq_some srcs r).1 h
  have := mem_trusted_foldl srcs ⟨[], [], [], [], 0⟩ k e
  simpa [ent_nil, entriesOf_eq_ent] using this

/-- General form of `C16_audits_order`: any number of sources, and no hypothesis on the order
(or distinctness) of the sources' keys — the accumulator starts empty and `extendKey` keeps its keys
strictly increasing, which is all that is needed. -/
theorem C16_audits_order_general (srcs : List Source) (r : Result) (h : aggregate srcs = some r)
    (k : Nat) :
    entriesOf k r.audits =
      srcs.flatMap (fun s => ((entriesOf k s.audits).filter (·.importable)).map (tag s.url)) := by
  obtain ⟨rfl, -⟩ := (aggregate_eq_some srcs r).1 h
  have := ent_audits_foldl_sorted srcs ⟨[], [], [], [], 0⟩ (by simp [Sorted]) k
  simpa [ent_nil, entriesOf_eq_ent] using this

-- NB: `hk₁`/`hk₂` are not needed (see `C16_audits_order_general`); the statement is kept as given.
set_option linter.unusedVariables false in
/-- per package the aggregate lists the sources' entries in source order -/
theorem C16_audits_order (s₁ s₂ : Source) (r : Result) (h : aggregate [s₁, s₂] = some r) (k : Nat)
    (hk₁ : (s₁.audits.map (·.1)).Pairwise (· < ·)) (hk₂ : (s₂.audits.map (·.1)).Pairwise (· < ·)) :
    entriesOf k r.audits =
      ((entriesOf k s₁.audits).filter (·.importable)).map (tag s₁.url) ++
      ((entriesOf k s₂.audits).filter (·.importable)).map (tag s₂.url) := by
  exact C16_audits_order_general [s₁, s₂] r h k |>.trans (by simp)

/-- criteria: every criterion of the aggregate is the first definition of that name among the
sources, tagged with that source; every defined name appears exactly once -/
theorem C16_criteria (srcs : List Source) (r : Result) (h : aggregate srcs = some r) :
    (∀ c ∈ r.criteria, ∃ u c₀, (u, c₀) ∈ allDefs srcs ∧ c = { c₀ with from_ := c₀.from_ ++ [u] }) ∧
    (∀ d ∈ allDefs srcs, ∃ c ∈ r.criteria, c.name = d.2.name) ∧
    (r.criteria.map (·.name)).Nodup := by
  obtain ⟨rfl, -⟩ := (aggregate_eq_some srcs r).1 h
  have inv := inv_aggregate srcs
  rw [allDefs_eq_defsOf]
  refine ⟨fun c hc => ?_, inv.pres, inv.nodup⟩
  obtain ⟨d, hd, rfl⟩ := inv.prov c hc
  exact ⟨d.1, d.2, hd, rfl⟩

/-- It fails, without output, exactly when two sources define the same criterion differently
(description, description-url or implies). -/
theorem C16_error_iff (srcs : List Source) :
    aggregate srcs = none ↔
      ∃ d₁ ∈ allDefs srcs, ∃ d₂ ∈ allDefs srcs, d₁.2.name = d₂.2.name ∧ sameDef d₁.2 d₂.2 = false := by
  have inv := inv_aggregate srcs
  rw [allDefs_eq_defsOf, sameDef_eq_same, ← err_iff _ _ inv]
  unfold aggregate
  simp only
  split <;> simp_all

/-- non-vacuity: two sources sharing a crate and a criterion -/
example : (aggregate [⟨1, [⟨5, 0, 0, [], []⟩], [(3, [⟨10, true, []⟩, ⟨11, false, []⟩])], [], []⟩,
                      ⟨2, [⟨5, 0, 0, [], []⟩], [(3, [⟨12, true, [9]⟩])], [], []⟩]).map (·.audits)
    = some [(3, [⟨10, true, [1]⟩, ⟨12, true, [9, 2]⟩])] := by decide +kernel

end Vet.Agg
