/-
What `certify` adds keeps a passing store passing (the entry-adding half of C10's "clean-up that
follows certify"): pushing a full or delta audit into audits.toml only adds certifying records,
so every chain of the old store is a chain of the new one; if the new audit contradicts no
violation (no conflict is reported), the store still vets.  Together with `C10_commands_partial`
(the clean-up half) this is C10 for `certify` end to end.
-/
import Vet.Props.Commands
namespace Vet

/-- appending keeps every indexed element -/
theorem mem_zipIdx_append_left {α : Type} (l l' : List α) (p : α × Nat) (h : p ∈ l.zipIdx) :
    p ∈ (l ++ l').zipIdx := by
  rw [List.zipIdx_append]
  exact List.mem_append_left _ h

/-- pushing an audit keeps every audit record of every crate, with its index -/
theorem allAudits_ask_audit_mono (s : Store) (k : Nat) (a : Audit) (name : Nat)
    (hs : (s.locals.audits.map (·.1)).Pairwise (· < ·))
    (x : Option Nat × Nat × Audit) (hx : x ∈ allAudits s name) :
    x ∈ allAudits (s.ask (.audit k a)) name := by
  unfold allAudits at hx ⊢
  rcases List.mem_append.1 hx with h | h
  · exact List.mem_append_left _ h
  · apply List.mem_append_right
    show x ∈ (getL name (pushEntry k a s.locals.audits)).zipIdx.map (fun (a, j) => (none, j, a))
    by_cases hn : name = k
    · subst hn
      rw [getL_pushEntry_self name a _ hs]
      obtain ⟨p, hp, rfl⟩ := List.mem_map.1 h
      exact List.mem_map.2 ⟨p, mem_zipIdx_append_left _ _ p hp, rfl⟩
    · rw [getL_pushEntry_ne k name a _ hn]
      exact h

/-- every certifying record of the old store is one of the new store, with the same origin -/
theorem CertEdge_ask_audit_mono (s : Store) (m : Mapper) (k : Nat) (a : Audit)
    (hs : (s.locals.audits.map (·.1)).Pairwise (· < ·))
    (name c : Nat) (x : Option Nat) (o : Origin) (y : Option Nat)
    (h : CertEdge s m name c x o y) : CertEdge (s.ask (.audit k a)) m name c x o y := by
  cases h with
  | full h1 h2 h3 h4 => exact .full (allAudits_ask_audit_mono s k a name hs _ h1) h2 h3 h4
  | delta h1 h2 h3 h4 => exact .delta (allAudits_ask_audit_mono s k a name hs _ h1) h2 h3 h4
  | wildcard h1 h2 h3 h4 h5 => exact .wildcard (s := s.ask (.audit k a)) h1 h2 h3 h4 h5
  | trusted h1 h2 h3 h4 h5 => exact .trusted (s := s.ask (.audit k a)) h1 h2 h3 h4 h5
  | unpublished h1 h2 => exact .unpublished (s := s.ask (.audit k a)) h1 h2
  | exemption h1 h2 h3 => exact .exemption (s := s.ask (.audit k a)) h1 h2 h3

theorem CertPath_ask_audit_mono (s : Store) (m : Mapper) (k : Nat) (a : Audit)
    (hs : (s.locals.audits.map (·.1)).Pairwise (· < ·))
    (name c : Nat) (x : Option Nat) (p : List Origin) (y : Option Nat)
    (h : CertPath s m name c x p y) : CertPath (s.ask (.audit k a)) m name c x p y := by
  induction h with
  | nil x => exact .nil x
  | cons he _ ih => exact .cons (CertEdge_ask_audit_mono s m k a hs name c _ _ _ he) ih

theorem CertChain_ask_audit_mono (s : Store) (m : Mapper) (k : Nat) (a : Audit)
    (hs : (s.locals.audits.map (·.1)).Pairwise (· < ·))
    (name c v : Nat) (h : CertChain s m name c v) : CertChain (s.ask (.audit k a)) m name c v := by
  obtain ⟨p, hp⟩ := h
  exact ⟨p, CertPath_ask_audit_mono s m k a hs name c _ p _ hp⟩

/-- C10 for the entry `certify` adds: a store that vets still vets with the new audit pushed,
unless the new audit makes some crate's audit graph report a violation conflict. -/
theorem C10_certify_ask_keeps_passing (w : World) (k : Nat) (a : Audit)
    (hs : (w.store.locals.audits.map (·.1)).Pairwise (· < ·))
    (r : Report) (hr : resolve w = .ok r) (x y z : List Nat) (hsucc : r.conclusion = .success x y z)
    (r' : Report) (hr' : resolve (w.ask (.audit k a)) = .ok r')
    (hnoconf : ∀ (i : Nat) (p : PkgNode), r'.graph.nodes[i]? = some p → p.thirdParty = true →
      ∃ g, build (w.ask (.audit k a)).store r'.mapper p.name = .ok (.graph g)) :
    ∃ x' y' z', r'.conclusion = .success x' y' z' := by
  obtain ⟨hg, hm, hq⟩ := resolve_parts hr
  obtain ⟨hg', hm', hq'⟩ := resolve_parts hr'
  have hgraph : r'.graph = r.graph := by
    have : (Except.ok r'.graph : Except Panic DepGraph) = .ok r.graph := by
      rw [← hg', ← hg]; rfl
    exact Except.ok.inj this
  have hmapper : r'.mapper = r.mapper := by
    have : (Except.ok r'.mapper : Except Panic Mapper) = .ok r.mapper := by
      rw [← hm', ← hm]; rfl
    exact Except.ok.inj this
  have hreqs : r'.requirements = r.requirements := by
    have : (Except.ok r'.requirements : Except Panic (List CSet)) = .ok r.requirements := by
      rw [← hq', ← hq, hgraph, hmapper]; rfl
    exact Except.ok.inj this
  apply C02_no_false_failure (w.ask (.audit k a)) r' hr' hnoconf
  intro i p hp htp c hc
  rw [hgraph] at hp
  have hc0 : r.required i c := by
    unfold Report.required at hc ⊢
    rw [hmapper, hreqs] at hc
    exact hc
  have hchain := C01_sound w r hr x y z hsucc i p hp htp c hc0
  rw [hmapper]
  exact CertChain_ask_audit_mono w.store r.mapper k a hs p.name c p.ver hchain

end Vet
