/-
Command wiring: the per-command corollaries of the update theorems (C10, C11, C12) for the
mode table of `Vet/Model/Commands.lean`, and what the entry-adding commands change.
-/
import Vet.Props.C12Prune
import Vet.Model.Commands
namespace Vet

/-- Only `init` and `regenerate exemptions` search in `RegenerateExemptions` mode. -/
theorem Cmd.mode_not_regenerate (c : Cmd) (h : c.regenerates = false) (n : Nat) :
    (c.modeOf n).search ≠ .regenerateExemptions := by
  cases c with
  | prune a b d => cases a <;> simp [Cmd.modeOf]
  | certify p => by_cases hp : n = p <;> simp [Cmd.modeOf, hp, cleanupMode, checkMode]
  | trust p => by_cases hp : n = p <;> simp [Cmd.modeOf, hp, cleanupMode, checkMode]
  | regenerateExemptions => simp [Cmd.regenerates] at h
  | init => simp [Cmd.regenerates] at h
  | _ => simp [Cmd.modeOf, checkMode, pruneMode]

/-- C10 per command: `prune` with any flags, `regenerate imports`, `regenerate unpublished`, the
automatic update of a successful check, and the clean-ups after `certify`, `trust` and `import`
keep a passing store passing (the next `--locked` view of what they write). -/
theorem C10_commands_partial (c : Cmd) (hc : c.regenerates = false) (w : World) (u : Updates)
    (hnd : (w.store.exemptions.map (·.1)).Nodup)
    (hu : c.update w = .ok u)
    (r : Report) (hr : resolve w = .ok r) (a b f : List Nat) (hs : r.conclusion = .success a b f) :
    ∃ r' a' b' f', resolve (w.applyLocked u) = .ok r' ∧ r'.conclusion = .success a' b' f' :=
  C10_update_preserves_success_partial w c.modeOf u hnd (Cmd.mode_not_regenerate c hc) hu r hr a b f hs

/-- C09, second sentence: a `check` that does not succeed writes nothing (and only then). -/
theorem C09_failing_check_writes_nothing (w : World) :
    Cmd.check.run w = .ok none ↔ ∃ r, resolve w = .ok r ∧ r.hasErrors = true := by
  unfold Cmd.run
  cases hr : resolve w with
  | error e => simp
  | ok r =>
    cases he : r.hasErrors with
    | true => simp [he]
    | false =>
      simp only [he, Bool.false_eq_true, if_false]
      cases Cmd.check.update w <;> simp [he]

/-- C09, first sentence, for the command as a whole: what a successful `check` writes vets
successfully when loaded `--locked`. -/
theorem C09_check_run_partial (w w' : World)
    (hnd : (w.store.exemptions.map (·.1)).Nodup)
    (h : Cmd.check.run w = .ok (some w')) :
    ∃ r' a' b' f', resolve w' = .ok r' ∧ r'.conclusion = .success a' b' f' := by
  unfold Cmd.run at h
  cases hr : resolve w with
  | error e => simp [hr] at h
  | ok r =>
    rw [hr] at h
    cases he : r.hasErrors with
    | true => simp [he] at h
    | false =>
      simp only [he, Bool.false_eq_true, if_false] at h
      cases hu : Cmd.check.update w with
      | error e => simp [hu] at h
      | ok u =>
        simp only [hu, Except.ok.injEq, Option.some.injEq] at h
        subst h
        have hsucc : ∃ a b f, r.conclusion = .success a b f := by
          unfold Report.hasErrors at he
          cases hc : r.conclusion with
          | success a b f => exact ⟨a, b, f, rfl⟩
          | failViolation vs => simp [hc] at he
          | failVet fs => simp [hc] at he
        obtain ⟨a, b, f, hs⟩ := hsucc
        exact C10_commands_partial .check rfl w u hnd hu r hr a b f hs

/-- does the command search for crate `n` in prune mode with exemption pruning on? -/
def Cmd.prunesExemptionsOf (c : Cmd) (n : Nat) : Bool :=
  (c.modeOf n).search == .preferFreshImports && (c.modeOf n).pruneExemptions

/-- which commands do, for which crate: `prune` without `--no-exemptions`, `regenerate imports`,
`import` for every crate; `certify` / `trust` for exactly the crate they were about. -/
theorem Cmd.prunesExemptionsOf_table (n p : Nat) (a b : Bool) :
    (Cmd.prune false a b).prunesExemptionsOf n = true ∧
    (Cmd.prune true a b).prunesExemptionsOf n = false ∧
    Cmd.regenerateImports.prunesExemptionsOf n = true ∧
    Cmd.importPeer.prunesExemptionsOf n = true ∧
    (Cmd.certify n).prunesExemptionsOf n = true ∧
    (Cmd.trust n).prunesExemptionsOf n = true ∧
    (n ≠ p → (Cmd.certify p).prunesExemptionsOf n = false) ∧
    (n ≠ p → (Cmd.trust p).prunesExemptionsOf n = false) ∧
    Cmd.check.prunesExemptionsOf n = false ∧
    Cmd.regenerateUnpublished.prunesExemptionsOf n = false := by
  refine ⟨?_, ?_, ?_, ?_, ?_, ?_, ?_, ?_, ?_, ?_⟩ <;>
    simp [Cmd.prunesExemptionsOf, Cmd.modeOf, pruneMode, cleanupMode, checkMode] <;>
    intro h <;> simp [h]

/-- C12 per command (the "kept" clause): after a command that prunes the exemptions of crate `n`
— `prune`, `regenerate imports`, `import`, and the clean-up of `certify n` / `trust n` — every
exemption left for `n`, and every criterion it lists, is needed: some in-graph version of `n`
requires it and every certifying walk for it passes an exemption-class edge. -/
theorem C12_command_exemption_needed_partial (cmd : Cmd) (w : World) (u : Updates)
    (hnd : (w.store.exemptions.map (·.1)).Nodup)
    (hu : cmd.update w = .ok u)
    (r : Report) (hr : resolve w = .ok r) (a b f : List Nat) (hs : r.conclusion = .success a b f)
    (n : Nat) (hp : cmd.prunesExemptionsOf n = true)
    (xs : List Exemption) (hx : (n, xs) ∈ u.exemptions) (x : Exemption) (hxm : x ∈ xs)
    (c : Nat) (hc : c ∈ x.criteria) :
    ∃ (i : Nat) (p : PkgNode) (g : Graph),
      r.graph.nodes[i]? = some p ∧ p.name = n ∧ p.thirdParty = true ∧ r.required i c ∧
      build w.store r.mapper n = .ok (.graph g) ∧
      (∀ path l, Walk g.backward .preferFreshImports c (some p.ver) path l none → 6 ≤ l) ∧
      (∃ (idx : Nat) (x₀ : Exemption), (x₀, idx) ∈ (getL n w.store.exemptions).zipIdx ∧
        x₀.version = x.version) := by
  simp only [Cmd.prunesExemptionsOf, Bool.and_eq_true, beq_iff_eq] at hp
  exact C12_prune_exemption_needed_partial w cmd.modeOf u hnd hu r hr a b f hs n hp.1 hp.2
    xs hx x hxm c hc

/-- C11 per command: the clean-up after `certify p` / `trust p` leaves the exemptions of every
other crate semantically untouched. -/
theorem C11_cleanup_other_exemptions_partial (cmd : Cmd) (p : Nat)
    (hcmd : cmd = .certify p ∨ cmd = .trust p) (w : World) (u : Updates) (m : Mapper)
    (hm : Mapper.new w.table = .ok m) (hu : cmd.update w = .ok u) (n : Nat) (hne : n ≠ p) :
    ∀ x ∈ getL n w.store.exemptions, x.criteria ≠ [] → ∃ x' ∈ getL n u.exemptions,
      x'.version = x.version ∧ x'.suggest = x.suggest ∧
      ∃ s, m.fromList x.criteria = .ok s ∧ m.fromList x'.criteria = .ok s := by
  have hreg : cmd.regenerates = false := by rcases hcmd with h | h <;> subst h <;> rfl
  have hpe : (cmd.modeOf n).pruneExemptions = false := by
    rcases hcmd with h | h <;> subst h <;> simp [Cmd.modeOf, hne, checkMode]
  exact C11_exemptions_untouched_partial w cmd.modeOf u m hm (Cmd.mode_not_regenerate cmd hreg) hu n hpe

/-- ... and their local audits: every audit of another crate is kept, in order. -/
theorem C11_cleanup_other_audits (cmd : Cmd) (p : Nat)
    (hcmd : cmd = .certify p ∨ cmd = .trust p) (w : World) (u : Updates)
    (hu : cmd.update w = .ok u) (n : Nat) (hne : n ≠ p) :
    ∀ kept, (n, kept) ∈ u.audits → ∃ l, (n, l) ∈ w.store.locals.audits ∧ kept = List.range l.length := by
  intro kept hk
  obtain ⟨_, h2⟩ := C11_local_audits w cmd.modeOf u hu
  obtain ⟨l, hl, _, hr, _⟩ := h2 n kept hk
  refine ⟨l, hl, hr ?_⟩
  rcases hcmd with h | h <;> subst h <;> simp [Cmd.modeOf, hne, checkMode]

/-- The check-mode commands (`check`, `regenerate unpublished`) touch no exemption and no local
audit at all. -/
theorem C11_check_mode_audits (cmd : Cmd) (hcmd : cmd = .check ∨ cmd = .regenerateUnpublished)
    (w : World) (u : Updates) (hu : cmd.update w = .ok u) :
    ∀ n kept, (n, kept) ∈ u.audits → ∃ l, (n, l) ∈ w.store.locals.audits ∧ kept = List.range l.length := by
  intro n kept hk
  obtain ⟨_, h2⟩ := C11_local_audits w cmd.modeOf u hu
  obtain ⟨l, hl, _, hr, _⟩ := h2 n kept hk
  refine ⟨l, hl, hr ?_⟩
  rcases hcmd with h | h <;> subst h <;> simp [Cmd.modeOf, checkMode]

/-! ### The entry-adding commands add exactly the entry asked for -/

theorem assoc?_pushEntry_ne {β : Type} (k n : Nat) (x : β) (t : List (Nat × List β)) (h : k ≠ n) :
    assoc? n (pushEntry k x t) = assoc? n t := by
  induction t with
  | nil => simp [pushEntry, assoc?, h]
  | cons hd tl ih =>
    obtain ⟨k', l⟩ := hd
    unfold pushEntry
    by_cases h1 : k' = k
    · subst h1
      simp [assoc?, h]
    · by_cases h2 : k < k'
      · simp [h1, h2, assoc?, h]
      · simp [h1, h2, assoc?, ih]

theorem getL_pushEntry_ne {β : Type} (k n : Nat) (x : β) (t : List (Nat × List β)) (h : n ≠ k) :
    getL n (pushEntry k x t) = getL n t := by
  simp [getL, assoc?_pushEntry_ne k n x t (Ne.symm h)]

/-- on a table whose keys are strictly increasing (a sorted map), pushing appends to the crate's list -/
theorem getL_pushEntry_self {β : Type} (k : Nat) (x : β) (t : List (Nat × List β))
    (hs : (t.map (·.1)).Pairwise (· < ·)) :
    getL k (pushEntry k x t) = getL k t ++ [x] := by
  induction t with
  | nil => simp [pushEntry, getL, assoc?]
  | cons hd tl ih =>
    obtain ⟨k', l⟩ := hd
    simp only [List.map_cons, List.pairwise_cons] at hs
    unfold pushEntry
    by_cases h1 : k' = k
    · subst h1
      simp [getL, assoc?]
    · by_cases h2 : k < k'
      · have hnot : assoc? k tl = none := by
          apply assoc?_none_of_not_mem
          intro hm
          have := hs.1 k hm
          omega
        simp [h1, h2, getL, assoc?, hnot]
      · have ih' := ih hs.2
        simp only [getL] at ih'
        simp [h1, h2, getL, assoc?, ih']

/-- each `Ask` changes exactly one table of the store -/
theorem Store.ask_frame (s : Store) (a : Ask) :
    (s.ask a).imports = s.imports ∧ (s.ask a).publishers = s.publishers ∧
    (s.ask a).unpublished = s.unpublished ∧ (s.ask a).policy = s.policy ∧
    (match a with
     | .audit _ _ => (s.ask a).locals.wildcards = s.locals.wildcards ∧ (s.ask a).trusted = s.trusted ∧ (s.ask a).exemptions = s.exemptions
     | .wildcard _ _ => (s.ask a).locals.audits = s.locals.audits ∧ (s.ask a).trusted = s.trusted ∧ (s.ask a).exemptions = s.exemptions
     | .trusted _ _ => (s.ask a).locals = s.locals ∧ (s.ask a).exemptions = s.exemptions
     | .exemption _ _ => (s.ask a).locals = s.locals ∧ (s.ask a).trusted = s.trusted) := by
  cases a <;> simp [Store.ask]

/-- ... and in that table only the list of the crate asked about, by appending the entry -/
theorem Store.ask_audit_other (s : Store) (k n : Nat) (a : Audit) (h : n ≠ k) :
    getL n (s.ask (.audit k a)).locals.audits = getL n s.locals.audits := by
  simp [Store.ask, getL_pushEntry_ne _ _ _ _ h]

theorem Store.ask_audit_self (s : Store) (k : Nat) (a : Audit)
    (hs : (s.locals.audits.map (·.1)).Pairwise (· < ·)) :
    getL k (s.ask (.audit k a)).locals.audits = getL k s.locals.audits ++ [a] := by
  simp [Store.ask, getL_pushEntry_self _ _ _ hs]

theorem Store.ask_exemption_self (s : Store) (k : Nat) (x : Exemption)
    (hs : (s.exemptions.map (·.1)).Pairwise (· < ·)) :
    getL k (s.ask (.exemption k x)).exemptions = getL k s.exemptions ++ [x] := by
  simp [Store.ask, getL_pushEntry_self _ _ _ hs]

theorem Store.ask_exemption_other (s : Store) (k n : Nat) (x : Exemption) (h : n ≠ k) :
    getL n (s.ask (.exemption k x)).exemptions = getL n s.exemptions := by
  simp [Store.ask, getL_pushEntry_ne _ _ _ _ h]

def cmdWorld : World :=
  { table := [], md := c04Meta,
    store := { imports := [], locals := ⟨[], []⟩, trusted := [], publishers := [], unpublished := [],
               exemptions := [(1, [⟨0, [1], true⟩])], policy := [] } }

/-- Non-vacuity of the wiring statements: on the store with an exemption only, `certify` of that
crate keeps the (needed) exemption, and with a full audit pushed by the command the clean-up
removes it, while a `certify` of another crate leaves it alone. -/
theorem Cmd_certify_example :
    ((Cmd.certify 1).update cmdWorld).toOption.map (·.exemptions) = some [(1, [⟨0, [1], true⟩])] ∧
    ((Cmd.certify 1).update (cmdWorld.ask (.audit 1 ⟨.full 0, [1], true, false⟩))).toOption.map (·.exemptions) = some [] ∧
    ((Cmd.certify 0).update (cmdWorld.ask (.audit 1 ⟨.full 0, [1], true, false⟩))).toOption.map (·.exemptions)
      = some [(1, [⟨0, [1], true⟩])] := by
  decide +kernel

end Vet
