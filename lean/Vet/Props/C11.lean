/-
C11 — automatic updates never widen what the project trusts.
Property theorems only; helper lemmas live in Vet/Lemmas/Update*.lean.
-/
import Vet.Lemmas.Update
namespace Vet

/-- indices strictly increasing and in range: a sub-selection of an existing list -/
def IncreasingBelow (l : List Nat) (n : Nat) : Prop := l.Pairwise (· < ·) ∧ ∀ i ∈ l, i < n

theorem keepIdx_incr {α : Type} (l : List α) (f : Nat → α → Bool) :
    IncreasingBelow (keepIdx l f) l.length := ⟨keepIdx_pairwise l f, keepIdx_lt l f⟩

theorem keepTable_incr {α : Type} (t : List (Nat × List α)) (F : Nat → Nat → α → Bool) :
    (t.map (fun (n, l) => (n, keepIdx l (F n)))).map (·.1) = t.map (·.1) ∧
    ∀ n kept, (n, kept) ∈ t.map (fun (n, l) => (n, keepIdx l (F n))) →
      ∃ l, (n, l) ∈ t ∧ IncreasingBelow kept l.length := by
  obtain ⟨h1, h2⟩ := keepTable_spec t F
  refine ⟨h1, fun n kept h => ?_⟩
  obtain ⟨l, hl, rfl⟩ := h2 n kept h
  exact ⟨l, hl, keepIdx_incr _ _⟩

/-- Local audits: the table keeps its names; each list is a sub-selection of the old one
(no audit added or altered); importable audits are always kept; with the pruning flag off the
list is untouched. -/
theorem C11_local_audits (w : World) (modeOf : Nat → UpdateMode) (u : Updates)
    (h : getStoreUpdates w modeOf = .ok u) :
    u.audits.map (·.1) = w.store.locals.audits.map (·.1) ∧
    ∀ n kept, (n, kept) ∈ u.audits → ∃ l, (n, l) ∈ w.store.locals.audits ∧
      IncreasingBelow kept l.length ∧
      ((modeOf n).pruneNonImportable = false → kept = List.range l.length) ∧
      (∀ i a, l[i]? = some a → a.importable = true → i ∈ kept) := by
  obtain ⟨dg, m, reqs, required, ex0, _, _, _, _, _, rfl⟩ := getStoreUpdates_inv h
  simp only [auditsUpd]
  constructor
  · rw [List.map_map]
    apply List.map_congr_left
    rintro ⟨n, l⟩ _
    simp only [Function.comp]
    split
    · split <;> rfl
    · rfl
  · intro n kept hk
    obtain ⟨⟨n', l⟩, hmem, he⟩ := List.mem_map.1 hk
    refine ⟨l, ?_, ?_⟩
    · have : n' = n := by
        simp only at he
        split at he
        · split at he <;> cases he <;> rfl
        · cases he; rfl
      exact this ▸ hmem
    · have hall : keepIdx l (fun _ _ => true) = List.range l.length :=
        keepIdx_true l _ (fun _ _ _ => rfl)
      have hfull : ∀ i a, l[i]? = some a → i ∈ keepIdx l (fun _ _ => true) := fun i a ha =>
        (mem_keepIdx l _ i).2 ⟨a, ha, rfl⟩
      simp only at he
      split at he
      · rename_i r _
        split at he
        · rename_i hp
          cases he
          refine ⟨keepIdx_incr _ _, fun hp' => ?_, fun i a ha hi => ?_⟩
          · rw [hp] at hp'; cases hp'
          · exact (mem_keepIdx l _ i).2 ⟨a, ha, by simp only [hi, Bool.true_or]⟩
        · cases he
          exact ⟨keepIdx_incr _ _, fun _ => hall, fun i a ha _ => hfull i a ha⟩
      · cases he
        exact ⟨keepIdx_incr _ _, fun _ => hall, fun i a ha _ => hfull i a ha⟩

/-- imports.lock: one entry per configured import, each table a sub-selection of the live (or,
when locked, the locked) view of that import — nothing is recorded that is not currently served
or already locked. -/
theorem C11_imports (w : World) (modeOf : Nat → UpdateMode) (u : Updates)
    (h : getStoreUpdates w modeOf = .ok u) :
    u.imports.length = w.store.imports.length ∧
    ∀ (ii : Nat) (a wl : List (Nat × List Nat)) (f : AFile), u.imports[ii]? = some (a, wl) → w.store.imports[ii]? = some f →
      (a.map (·.1) = f.audits.map (·.1) ∧
       ∀ n kept, (n, kept) ∈ a → ∃ l, (n, l) ∈ f.audits ∧ IncreasingBelow kept l.length) ∧
      (wl.map (·.1) = f.wildcards.map (·.1) ∧
       ∀ n kept, (n, kept) ∈ wl → ∃ l, (n, l) ∈ f.wildcards ∧ IncreasingBelow kept l.length) := by
  obtain ⟨dg, m, reqs, required, ex0, _, _, _, _, _, rfl⟩ := getStoreUpdates_inv h
  simp only [importsUpd]
  refine ⟨by simp only [List.length_map, List.length_zipIdx], ?_⟩
  intro ii a wl f hu hf
  rw [List.getElem?_map, List.getElem?_zipIdx, hf] at hu
  simp only [Option.map_some, Nat.zero_add, Option.some.injEq, Prod.mk.injEq] at hu
  obtain ⟨rfl, rfl⟩ := hu
  exact ⟨keepTable_incr f.audits (impAuditPred w.store modeOf required ii), keepTable_incr f.wildcards (impWildPred w.store modeOf required ii)⟩

/-- publisher and unpublished tables likewise -/
theorem C11_publishers (w : World) (modeOf : Nat → UpdateMode) (u : Updates)
    (h : getStoreUpdates w modeOf = .ok u) :
    (u.publishers.map (·.1) = w.store.publishers.map (·.1) ∧
     ∀ n kept, (n, kept) ∈ u.publishers → ∃ l, (n, l) ∈ w.store.publishers ∧ IncreasingBelow kept l.length) ∧
    (u.unpublished.map (·.1) = w.store.unpublished.map (·.1) ∧
     ∀ n kept, (n, kept) ∈ u.unpublished → ∃ l, (n, l) ∈ w.store.unpublished ∧ IncreasingBelow kept l.length) := by
  obtain ⟨dg, m, reqs, required, ex0, _, _, _, _, _, rfl⟩ := getStoreUpdates_inv h
  exact ⟨keepTable_incr w.store.publishers (pubPred w.store modeOf required), keepTable_incr w.store.unpublished (unpubPred modeOf required)⟩

/-! ### Statements that are false as originally written

`C11_stale_kept`, `C11_exemptions_narrow`, `C11_exemptions_untouched` and `C11_no_fresh_exemption`
are refuted by concrete counterexamples in `Vet/Props/C11_todo.lean`.  Below are the closest true
statements. -/

/-- stale (already locked) records are never dropped unless pruning was asked for or a fresh
record of that crate is being imported: every kept list for `n` is the full index range of some
old publisher list of `n` (no uniqueness of table keys needed) -/
theorem C11_stale_kept_exists (w : World) (modeOf : Nat → UpdateMode) (u : Updates)
    (h : getStoreUpdates w modeOf = .ok u) (n : Nat)
    (hp : (modeOf n).pruneImports = false)
    (hnofresh : ∀ l, (n, l) ∈ w.store.publishers → ∀ p ∈ l, p.fresh = false)
    (hnofresh2 : ∀ f ∈ w.store.imports, (∀ l, (n, l) ∈ f.audits → ∀ a ∈ l, a.fresh = false) ∧
                                        (∀ l, (n, l) ∈ f.wildcards → ∀ a ∈ l, a.fresh = false)) :
    ∀ kept, (n, kept) ∈ u.publishers →
      ∃ l, (n, l) ∈ w.store.publishers ∧ kept = List.range l.length := by
  obtain ⟨dg, m, reqs, required, ex0, _, _, _, _, _, rfl⟩ := getStoreUpdates_inv h
  intro kept hk
  obtain ⟨l, hl, rfl⟩ := (keepTable_spec w.store.publishers (pubPred w.store modeOf required)).2 n kept hk
  refine ⟨l, hl, keepIdx_true l _ ?_⟩
  intro i a ha
  have hf : a.fresh = false := hnofresh l hl a (List.mem_of_getElem? ha)
  simp only [pubPred, shouldPruneImports_false w.store _ (modeOf n) n hp hnofresh hnofresh2, hf,
    Bool.not_false, Bool.and_self, if_true]

/-- `C11_stale_kept` under the extra hypothesis that the publisher table has unique keys (it is a
map in the real store); without it two entries of the same crate with different lengths refute
the original statement -/
theorem C11_stale_kept_partial (w : World) (modeOf : Nat → UpdateMode) (u : Updates)
    (hnd : (w.store.publishers.map (·.1)).Nodup)
    (h : getStoreUpdates w modeOf = .ok u) (n : Nat)
    (hp : (modeOf n).pruneImports = false)
    (hnofresh : ∀ l, (n, l) ∈ w.store.publishers → ∀ p ∈ l, p.fresh = false)
    (hnofresh2 : ∀ f ∈ w.store.imports, (∀ l, (n, l) ∈ f.audits → ∀ a ∈ l, a.fresh = false) ∧
                                        (∀ l, (n, l) ∈ f.wildcards → ∀ a ∈ l, a.fresh = false)) :
    ∀ kept l, (n, kept) ∈ u.publishers → (n, l) ∈ w.store.publishers → kept = List.range l.length := by
  intro kept l hk hl
  obtain ⟨l', hl', rfl⟩ := C11_stale_kept_exists w modeOf u h n hp hnofresh hnofresh2 kept hk
  rw [mem_unique_of_nodup hnd hl hl']

/-- outside the regenerate mode the final exemption table is the rewritten old one: nothing is
appended -/
theorem exemptions_eq_table {w : World} {modeOf : Nat → UpdateMode} {u : Updates} {m : Mapper}
    (hm : Mapper.new w.table = .ok m)
    (hmode : ∀ n, (modeOf n).search ≠ .regenerateExemptions)
    (h : getStoreUpdates w modeOf = .ok u) :
    ∃ dg reqs required,
      allRequired dg m reqs w.store modeOf (dg.nodes.map (·.name)) [] = .ok required ∧
      exemptionTable m modeOf (reqOfL required) w.store.exemptions = .ok u.exemptions := by
  obtain ⟨dg, m', reqs, required, ex0, _, hm', _, hreq, hex, rfl⟩ := getStoreUpdates_inv h
  rw [hm] at hm'
  cases hm'
  refine ⟨dg, reqs, required, hreq, ?_⟩
  simp only
  rw [freshFold_id required ex0]
  · exact hex
  · intro n r hmem
    exact requiredEntries_noFresh (hmode n)
      (allRequired_mem _ (by intro _ _ hh; cases hh) hreq n _ hmem)

/-- `C11_exemptions_narrow` under the extra hypothesis that the exemption table has unique keys:
every exemption in the result has the version and `suggest` flag of an old exemption of that
crate and denotes a subset of its criteria — none is added or broadened. -/
theorem C11_exemptions_narrow_partial (w : World) (modeOf : Nat → UpdateMode) (u : Updates) (m : Mapper)
    (hnd : (w.store.exemptions.map (·.1)).Nodup)
    (hm : Mapper.new w.table = .ok m)
    (hmode : ∀ n, (modeOf n).search ≠ .regenerateExemptions)
    (h : getStoreUpdates w modeOf = .ok u) :
    ∀ n xs' x', (n, xs') ∈ u.exemptions → x' ∈ xs' →
      ∃ x ∈ getL n w.store.exemptions, x'.version = x.version ∧ x'.suggest = x.suggest ∧
        ∃ s s', m.fromList x.criteria = .ok s ∧ m.fromList x'.criteria = .ok s' ∧
          ∀ c, s'.testBit c = true → s.testBit c = true := by
  obtain ⟨dg, reqs, required, hreq, hex⟩ := exemptions_eq_table hm hmode h
  intro n xs' x' hmem hx'
  obtain ⟨xs, hxs, hupd⟩ := exemptionTable_mem _ hex n xs' hmem
  have hget : getL n w.store.exemptions = xs := getL_of_nodup hnd hxs
  obtain ⟨x, i, a, hxi, ha, hx'a⟩ := (updateExemptions_mem _ hupd).2 x' hx'
  obtain ⟨original, ho, hbody⟩ := updateExemption_ok ha
  have hsub : ReqSub (reqOfL required n) i original :=
    reqSub_of_allRequired hreq n (hmode n) (by rw [hget]; exact hxi) ho
  obtain ⟨hv, hs, s', hs', hss⟩ := exBody_sub hm ho (usefulOf_sub hsub) hbody x' hx'a
  exact ⟨x, by rw [hget]; exact List.fst_mem_of_mem_zipIdx hxi, hv, hs, original, s', ho, hs', hss⟩

/-- `C11_exemptions_untouched` for exemptions with a non-empty criteria list (an exemption whose
criteria list is empty denotes the empty set and is dropped by the update): with exemption
pruning off (and not regenerating) every such old exemption survives with the same meaning. -/
theorem C11_exemptions_untouched_partial (w : World) (modeOf : Nat → UpdateMode) (u : Updates) (m : Mapper)
    (hm : Mapper.new w.table = .ok m)
    (hmode : ∀ n, (modeOf n).search ≠ .regenerateExemptions)
    (h : getStoreUpdates w modeOf = .ok u) (n : Nat) (hp : (modeOf n).pruneExemptions = false) :
    ∀ x ∈ getL n w.store.exemptions, x.criteria ≠ [] → ∃ x' ∈ getL n u.exemptions,
      x'.version = x.version ∧ x'.suggest = x.suggest ∧
      ∃ s, m.fromList x.criteria = .ok s ∧ m.fromList x'.criteria = .ok s := by
  obtain ⟨dg, reqs, required, hreq, hex⟩ := exemptions_eq_table hm hmode h
  intro x hx hne
  obtain ⟨l, hl, hget⟩ := exemptionTable_getL _ hex n
  obtain ⟨i, hxi⟩ : ∃ i, (x, i) ∈ (getL n w.store.exemptions).zipIdx := by
    obtain ⟨i, hi, hxe⟩ := List.getElem_of_mem hx
    exact ⟨i, List.mem_zipIdx_iff_getElem?.2 (by simp only [List.getElem?_eq_getElem hi, hxe])⟩
  obtain ⟨a, ha, hal⟩ := (updateExemptions_mem _ hl).1 x i hxi
  obtain ⟨original, ho, hbody⟩ := updateExemption_ok ha
  have hsub : ReqSub (reqOfL required n) i original :=
    reqSub_of_allRequired hreq n (hmode n) hxi ho
  rw [hp, usefulOf_noprune hsub] at hbody
  have hne0 : original ≠ 0 := by
    obtain ⟨c0, rest⟩ := List.exists_cons_of_ne_nil hne
    obtain ⟨rest, hc⟩ := rest
    have hc0 : c0 ∈ x.criteria := by rw [hc]; exact List.mem_cons_self
    have hbit : original.testBit c0 = true :=
      (C05_fromList_spec w.table m hm _ original ho c0).2 ⟨c0, hc0, .refl _⟩
    intro e
    rw [e] at hbit
    simp at hbit
  obtain ⟨x', hx'a, hv, hs, hx'⟩ := exBody_keep hm ho hne0 hbody
  have hx'l : x' ∈ l := hal x' hx'a
  refine ⟨x', ?_, hv, hs, original, ho, hx'⟩
  rw [hget (List.ne_nil_of_mem hx'l)]
  exact hx'l

/-- `C11_no_fresh_exemption` for graphs without stored `FreshExemption` edges (every graph made
by `build`, see `build_no_fresh_origin`): outside the regenerate mode a chosen path never
contains a `FreshExemption` step. -/
theorem C11_no_fresh_exemption_partial (g : Graph) (c v : Nat) (mode : Mode) (path : List Origin)
    (hg : ∀ t ∈ g.edges, ∀ v', t.origin ≠ .freshExemption v')
    (hmode : mode ≠ .regenerateExemptions) (h : search g c v mode = .ok path) :
    ∀ o ∈ path, ∀ v', o ≠ .freshExemption v' := by
  intro o ho v' he
  obtain ⟨t, ht, hto, _⟩ := search_origin_edge hmode h o ho
  exact hg t ht v' (hto.trans he)

/-- the instance of `C11_no_fresh_exemption` the update actually uses: graphs made by `build` -/
theorem C11_no_fresh_exemption_build (s : Store) (m : Mapper) (name : Nat) (g : Graph)
    (hb : build s m name = .ok (.graph g)) (c v : Nat) (mode : Mode) (path : List Origin)
    (hmode : mode ≠ .regenerateExemptions) (h : search g c v mode = .ok path) :
    ∀ o ∈ path, ∀ v', o ≠ .freshExemption v' :=
  C11_no_fresh_exemption_partial g c v mode path (build_no_fresh_origin hb) hmode h

end Vet
