/-
C04 — violations dominate.  On the current tree the first sentence of the property is false
for wildcard-audit, trusted-publisher and unpublished-link edges (known findings
C04/edge=WildcardAudit, C04/edge=Trusted, C04/edge=Unpublished): the counterexamples below are
kernel-evaluated on the model and replayed on the real code by the harness.  What does hold
(the second sentence, and the first restricted to audit and exemption edges) is proved in
Vet/Props/Build.lean: C04_exemption_conflict, C04_audit_conflict, C04_no_claiming_edge_partial.
-/
import Vet.Props.Build
import Vet.Model.Resolve
import Vet.Lemmas.FromList
namespace Vet

def conclusionOf (w : World) : Option Conclusion :=
  match resolve w with
  | .ok r => some r.conclusion
  | .error _ => none

/-- workspace member `a` (name 0) depends on crates.io crate `b` (name 1) version 0 -/
def c04Meta : Meta := ⟨[⟨0, 0, 0, false, [(1, 1)]⟩, ⟨1, 0, 1, true, []⟩], [0]⟩

/-- a violation `*` for safe-to-deploy on `b`, and a wildcard audit by the user who published it -/
def c04Wildcard : World :=
  { table := [], md := c04Meta,
    store := { imports := [],
               locals := ⟨[(1, [⟨.violation [0], [1], true, false⟩])], [(1, [⟨7, 0, 100, [1], false⟩])]⟩,
               trusted := [], publishers := [(1, [⟨0, 7, 5, false⟩])], unpublished := [],
               exemptions := [], policy := [] } }

/-- same with a trusted-publisher entry -/
def c04Trusted : World :=
  { table := [], md := c04Meta,
    store := { imports := [],
               locals := ⟨[(1, [⟨.violation [0], [1], true, false⟩])], []⟩,
               trusted := [(1, [⟨7, 0, 100, [1]⟩])], publishers := [(1, [⟨0, 7, 5, false⟩])],
               unpublished := [], exemptions := [], policy := [] } }

/-- version 1 of `b` is in the graph, is covered by a violation (matching only version 1), and is
vetted as version 0 through an unpublished link; version 0 has a clean full audit -/
def c04Unpublished : World :=
  { table := [], md := ⟨[⟨0, 0, 0, false, [(1, 1)]⟩, ⟨1, 1, 1, true, []⟩], [0]⟩,
    store := { imports := [],
               locals := ⟨[(1, [⟨.violation [1], [1], true, false⟩, ⟨.full 0, [1], true, false⟩])], []⟩,
               trusted := [], publishers := [], unpublished := [(1, [⟨1, 0, false⟩])],
               exemptions := [], policy := [] } }

/-- Known finding C04/edge=WildcardAudit: the in-graph version is covered by a violation for the
required criterion, and vet succeeds. -/
theorem C04_counterexample_wildcard : conclusionOf c04Wildcard = some (.success [] [] [1]) := by
  decide +kernel

/-- Known finding C04/edge=Trusted. -/
theorem C04_counterexample_trusted : conclusionOf c04Trusted = some (.success [] [] [1]) := by
  decide +kernel

/-- Known finding C04/edge=Unpublished. -/
theorem C04_counterexample_unpublished : conclusionOf c04Unpublished = some (.success [] [] [1]) := by
  decide +kernel

/-- the same violation against a full audit of that version is caught (non-vacuity of
`C04_audit_conflict`) -/
example : conclusionOf { c04Wildcard with store := { c04Wildcard.store with
    locals := ⟨[(1, [⟨.violation [0], [1], true, false⟩, ⟨.full 0, [1], true, false⟩])], []⟩ } }
    = some (.failViolation [(1, [.audit none ⟨.violation [0], [1], true, false⟩ none ⟨.full 0, [1], true, false⟩])]) := by
  decide +kernel

end Vet
