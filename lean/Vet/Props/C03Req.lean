/-
C03 (part 1) — `resolve_requirements` computes the solution of the rule system, given a
valid children-first order.  Property theorems only; helpers in Vet/Lemmas/Requirements.lean.
-/
import Vet.Lemmas.Requirements
namespace Vet

/-- The requirement vector computed by the two loops solves the rule system. -/
theorem C03_requirements_solve (g : DepGraph) (pol : Policy) (m : Mapper) (req : List CSet)
    (hv : ValidTopo g) (h : resolveRequirements g pol m = .ok req) :
    IsDemand g pol m (fun i => req.getD i 0) := by
  intro p hp
  exact (resolve_inv hv h).fin p (List.mem_reverse.2 hp)

/-- Packages outside the maximal build graph get no demand at all. -/
theorem C03_unlisted_empty (g : DepGraph) (pol : Policy) (m : Mapper) (req : List CSet)
    (hv : ValidTopo g) (h : resolveRequirements g pol m = .ok req)
    (i : Nat) (hi : i ∉ g.topo) : req.getD i 0 = 0 := by
  apply Nat.eq_of_testBit_eq
  intro b
  rw [Nat.zero_testBit]
  cases hb : (req.getD i 0).testBit b with
  | false => rfl
  | true =>
    exfalso
    rw [(resolve_inv hv h).pend i (fun hm => hi (List.mem_reverse.1 hm)) b] at hb
    rcases hb with hb | ⟨q, hq, hiq, _⟩
    · exact hi (devVal_unlisted hv pol m i b hb)
    · exact hi (hv.dep_listed (List.mem_reverse.1 hq) hiq)

/-- The rule system has exactly one solution on the listed packages (so "the" demand of C03
is well defined and is what the code computes). -/
theorem C03_demand_unique (g : DepGraph) (pol : Policy) (m : Mapper) (D₁ D₂ : Nat → CSet)
    (hv : ValidTopo g) (h₁ : IsDemand g pol m D₁) (h₂ : IsDemand g pol m D₂) :
    ∀ p ∈ g.topo, D₁ p = D₂ p := by
  have key : ∀ p ∈ g.topo.reverse, D₁ p = D₂ p := by
    apply rev_induction (L := g.topo.reverse) (fun p => D₁ p = D₂ p)
    intro done i todo hL ih
    have hi : i ∈ g.topo := List.mem_reverse.1 (by rw [hL]; simp)
    show D₁ i = D₂ i
    rw [h₁ i hi, h₂ i hi]
    apply ruleRhs_congr
    intro q hq hiq
    exact ih q (hv.revOK.parent_done' hL (List.mem_reverse.2 hq) hiq)
  intro p hp
  exact key p (List.mem_reverse.2 hp)

/-- Leastness: any assignment that satisfies every rule as a ⊇-constraint is above the
computed requirements. -/
theorem C03_least (g : DepGraph) (pol : Policy) (m : Mapper) (req : List CSet) (D : Nat → CSet)
    (hv : ValidTopo g) (h : resolveRequirements g pol m = .ok req)
    (hD : ∀ p ∈ g.topo, CSet.sub (ruleRhs g pol m D p) (D p)) :
    ∀ p ∈ g.topo, CSet.sub (req.getD p 0) (D p) := by
  have hs := C03_requirements_solve g pol m req hv h
  have key : ∀ p ∈ g.topo.reverse, CSet.sub (req.getD p 0) (D p) := by
    apply rev_induction (L := g.topo.reverse) (fun p => CSet.sub (req.getD p 0) (D p))
    intro done i todo hL ih
    have hi : i ∈ g.topo := List.mem_reverse.1 (by rw [hL]; simp)
    show CSet.sub (req.getD i 0) (D i)
    have hsi : req.getD i 0 = ruleRhs g pol m (fun i => req.getD i 0) i := hs i hi
    rw [hsi]
    refine CSet.sub_trans (ruleRhs_mono g pol m _ D i ?_) (hD i hi)
    intro q hq hiq
    exact ih q (hv.revOK.parent_done' hL (List.mem_reverse.2 hq) hiq)
  intro p hp
  exact key p (List.mem_reverse.2 hp)

/-- The result has one entry per package. -/
theorem C03_requirements_length (g : DepGraph) (pol : Policy) (m : Mapper) (req : List CSet)
    (h : resolveRequirements g pol m = .ok req) : req.length = g.nodes.length := by
  unfold resolveRequirements at h
  split at h
  · cases h
  · rename_i req0 h0
    rw [topoLoop_length g pol m _ req0 req h, (devLoop_init g pol m req0 h0).1]

end Vet
