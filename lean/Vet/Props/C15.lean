/-
C15 — malformed stores are refused or processed, never crash.

`validate` (after the repairs 86e7107, 41b3c28 to the code) checks the criteria table itself and
every criteria reference that resolution or the import step evaluates.  The theorems below say:
what an accepted store satisfies (`C15_checked_sites`), that each defect is refused
(`C15_refused_*`), that the table check is sound and complete for `Mapper.new`
(`C15_checkTable_sound/complete`), that an accepted store makes `resolve` return a report
(`C15_no_panic_locked/unlocked`), and that whatever peers serve, importing into an accepted store
returns a result or a refusal, and only yields defined local criteria (`C15_import_*`).
The worlds of the former findings are kept as regression witnesses (`C15_fixed_*`).
Property theorems only; helper lemmas live in Vet/Lemmas/Validate*.lean.
-/
import Vet.Lemmas.Validate
import Vet.Lemmas.ValidateNoPanic
import Vet.Lemmas.CheckTable
import Vet.Lemmas.ImportsNoPanic
namespace Vet

/-- what `validate` guarantees when it accepts a store: the criteria table can be mapped and
every criteria reference in exemptions, policy, `implies`, local audits, local wildcard audits,
`trusted` entries and `criteria-map` targets — and, for a locked load, in imports.lock — is
defined -/
theorem C15_checked_sites (t : Table) (s : Store) (maxEnd : Nat) (locked : Bool)
    (ci : List (Nat × List Nat)) (ln : List Nat) (mt : List (List Nat))
    (h : validate t s maxEnd locked ci ln mt = []) :
    checkTable t = true ∧
    (∀ e ∈ s.exemptions, ∀ x ∈ e.2, ∀ c ∈ x.criteria, c < t.n) ∧
    (∀ c ∈ t, ∀ i ∈ c.implies, i < t.n) ∧
    (∀ e ∈ s.locals.audits, ∀ a ∈ e.2, ∀ c ∈ a.criteria, c < t.n) ∧
    (∀ e ∈ s.locals.wildcards, ∀ a ∈ e.2, ∀ c ∈ a.criteria, c < t.n) ∧
    (∀ name ver e, s.policy.get name ver = some e →
      (∀ l, e.criteria = some l → ∀ c ∈ l, c < t.n) ∧ (∀ l, e.devCriteria = some l → ∀ c ∈ l, c < t.n) ∧
      (∀ d ∈ e.depCriteria, ∀ c ∈ d.2, c < t.n)) ∧
    (∀ e ∈ s.trusted, ∀ x ∈ e.2, ∀ c ∈ x.criteria, c < t.n) ∧
    (∀ l ∈ mt, ∀ c ∈ l, c < t.n) ∧
    (locked = true → ∀ f ∈ s.imports, f.RefsValid t.n) := by
  obtain ⟨hct, hc, _, _⟩ := validate_nil_iff.1 h
  obtain ⟨h1, _, h3, h4, h5, h6, h7, h8⟩ := invalidCriteriaCount_eq_zero hc
  exact ⟨hct, h1, h3, h4, h5, polOK_of_count hc, h6, h7, h8⟩

/-- an undefined criterion at any checked site is refused -/
theorem C15_refused_exemption (t : Table) (s : Store) (maxEnd : Nat) (locked : Bool)
    (ci : List (Nat × List Nat)) (ln : List Nat) (mt : List (List Nat))
    (e : Nat × List Exemption) (he : e ∈ s.exemptions) (x : Exemption) (hx : x ∈ e.2)
    (c : Nat) (hc : c ∈ x.criteria) (hbad : t.n ≤ c) :
    ValidateError.invalidCriteria ∈ validate t s maxEnd locked ci ln mt := by
  apply invalidCriteria_mem_of_count
  have h1 := nested_pos (n := t.n) (fun x : Exemption => x.criteria) he hx hc hbad
  have h2 := (invalidCriteriaCount_ge t s locked mt).1
  omega

theorem C15_refused_audit (t : Table) (s : Store) (maxEnd : Nat) (locked : Bool)
    (ci : List (Nat × List Nat)) (ln : List Nat) (mt : List (List Nat))
    (e : Nat × List Audit) (he : e ∈ s.locals.audits) (a : Audit) (ha : a ∈ e.2)
    (c : Nat) (hc : c ∈ a.criteria) (hbad : t.n ≤ c) :
    ValidateError.invalidCriteria ∈ validate t s maxEnd locked ci ln mt := by
  apply invalidCriteria_mem_of_count
  have h1 := nested_pos (n := t.n) (fun x : Audit => x.criteria) he ha hc hbad
  have h2 := (invalidCriteriaCount_ge t s locked mt).2.2.1
  omega

theorem C15_refused_implies (t : Table) (s : Store) (maxEnd : Nat) (locked : Bool)
    (ci : List (Nat × List Nat)) (ln : List Nat) (mt : List (List Nat))
    (cc : CustomCrit) (hcc : cc ∈ t) (i : Nat) (hi : i ∈ cc.implies) (hbad : t.n ≤ i) :
    ValidateError.invalidCriteria ∈ validate t s maxEnd locked ci ln mt := by
  apply invalidCriteria_mem_of_count
  have h0 := badRefs_pos hi hbad
  have h1 := le_map_sum_of_mem (fun c : CustomCrit => badRefs t.n c.implies) hcc
  have h2 := (invalidCriteriaCount_ge t s locked mt).2.1
  omega

theorem C15_refused_trusted (t : Table) (s : Store) (maxEnd : Nat) (locked : Bool)
    (ci : List (Nat × List Nat)) (ln : List Nat) (mt : List (List Nat))
    (e : Nat × List Trusted) (he : e ∈ s.trusted) (x : Trusted) (hx : x ∈ e.2)
    (c : Nat) (hc : c ∈ x.criteria) (hbad : t.n ≤ c) :
    ValidateError.invalidCriteria ∈ validate t s maxEnd locked ci ln mt := by
  apply invalidCriteria_mem_of_count
  have h1 := nested_pos (n := t.n) (fun x : Trusted => x.criteria) he hx hc hbad
  have h2 := (invalidCriteriaCount_ge t s locked mt).2.2.2.1
  omega

theorem C15_refused_map_target (t : Table) (s : Store) (maxEnd : Nat) (locked : Bool)
    (ci : List (Nat × List Nat)) (ln : List Nat) (mt : List (List Nat))
    (l : List Nat) (hl : l ∈ mt) (c : Nat) (hc : c ∈ l) (hbad : t.n ≤ c) :
    ValidateError.invalidCriteria ∈ validate t s maxEnd locked ci ln mt := by
  apply invalidCriteria_mem_of_count
  have h0 := badRefs_pos hc hbad
  have h1 := le_map_sum_of_mem (badRefs t.n) hl
  have h2 := (invalidCriteriaCount_ge t s locked mt).2.2.2.2.1
  omega

/-- a locked load refuses an imports.lock that names an undefined criterion (audits) -/
theorem C15_refused_lock_audit (t : Table) (s : Store) (maxEnd : Nat)
    (ci : List (Nat × List Nat)) (ln : List Nat) (mt : List (List Nat))
    (f : AFile) (hf : f ∈ s.imports) (e : Nat × List Audit) (he : e ∈ f.audits) (a : Audit) (ha : a ∈ e.2)
    (c : Nat) (hc : c ∈ a.criteria) (hbad : t.n ≤ c) :
    ValidateError.invalidCriteria ∈ validate t s maxEnd true ci ln mt := by
  apply invalidCriteria_mem_of_count
  have h0 := nested_pos (n := t.n) (fun x : Audit => x.criteria) he ha hc hbad
  have h1 := le_map_sum_of_mem (afileBad t.n) hf
  have h2 := (invalidCriteriaCount_ge t s true mt).2.2.2.2.2 rfl
  have h3 := afileBad_ge t.n f
  omega

/-- … and wildcard audits -/
theorem C15_refused_lock_wildcard (t : Table) (s : Store) (maxEnd : Nat)
    (ci : List (Nat × List Nat)) (ln : List Nat) (mt : List (List Nat))
    (f : AFile) (hf : f ∈ s.imports) (e : Nat × List Wildcard) (he : e ∈ f.wildcards) (a : Wildcard) (ha : a ∈ e.2)
    (c : Nat) (hc : c ∈ a.criteria) (hbad : t.n ≤ c) :
    ValidateError.invalidCriteria ∈ validate t s maxEnd true ci ln mt := by
  apply invalidCriteria_mem_of_count
  have h0 := nested_pos (n := t.n) (fun x : Wildcard => x.criteria) he ha hc hbad
  have h1 := le_map_sum_of_mem (afileBad t.n) hf
  have h2 := (invalidCriteriaCount_ge t s true mt).2.2.2.2.2 rfl
  have h3 := afileBad_ge t.n f
  omega

/-- a criteria table that `check_criteria_table` rejects is refused -/
theorem C15_refused_bad_table (t : Table) (s : Store) (maxEnd : Nat) (locked : Bool)
    (ci : List (Nat × List Nat)) (ln : List Nat) (mt : List (List Nat)) (h : checkTable t = false) :
    ValidateError.invalidCriteriaTable ∈ validate t s maxEnd locked ci ln mt := by
  unfold validate
  simp [h]

/-- soundness of the table check (the depth-first search of `check_criteria_table`): a table it
accepts, whose `implies` are all defined, is one `CriteriaMapper::new` processes without panic -/
theorem C15_checkTable_sound (t : Table) (hwf : ∀ c ∈ t, ∀ i ∈ c.implies, i < t.n)
    (h : checkTable t = true) : ∃ m, Mapper.new t = .ok m := by
  exact checkTable_sound hwf h

/-- completeness: the check never rejects a table `CriteriaMapper::new` can process (in
particular the recursion fuel of the model's search is sufficient) -/
theorem C15_checkTable_complete (t : Table) (m : Mapper) (h : Mapper.new t = .ok m) :
    checkTable t = true := by
  exact checkTable_complete h

/-- C06: a project's own wildcard audits ending after `today + 12 months` are refused at load,
and an accepted store has none -/
theorem C06_cap (t : Table) (s : Store) (maxEnd : Nat) (locked : Bool)
    (ci : List (Nat × List Nat)) (ln : List Nat) (mt : List (List Nat)) :
    (validate t s maxEnd locked ci ln mt = [] →
      ∀ e ∈ s.locals.wildcards, ∀ w ∈ e.2, w.stop ≤ maxEnd) ∧
    (∀ e ∈ s.locals.wildcards, ∀ w ∈ e.2, maxEnd < w.stop →
      ValidateError.badWildcardEndDate ∈ validate t s maxEnd locked ci ln mt) := by
  constructor
  · intro h
    exact (lateWildcards_eq_zero_iff maxEnd s).1 (validate_nil_iff.1 h).2.2.1
  · intro e he w hw hlate
    apply lateWildcards_mem_of_pos
    apply Nat.pos_of_ne_zero
    intro h0
    have := (lateWildcards_eq_zero_iff maxEnd s).1 h0 e he w hw
    omega

/-- C07 (locked mode): a lock that records audits or wildcard audits of a crate the
configuration excludes, or whose import names differ from the configured ones, is refused -/
theorem C07_locked_excluded_refused (t : Table) (s : Store) (maxEnd : Nat)
    (ci : List (Nat × List Nat)) (ln : List Nat) (mt : List (List Nat))
    (hbad : importsLockOutdated ci ln s.imports = true) :
    ValidateError.importsLockOutdated ∈ validate t s maxEnd true ci ln mt := by
  unfold validate
  simp [hbad]

/-- No crash, locked run (imports.lock is used as it is): a store that `validate` accepts makes
`resolve` return a report — success, failure or violation conflict — never a panic. -/
theorem C15_no_panic_locked (w : World) (hwf : w.md.WF) (maxEnd : Nat)
    (ci : List (Nat × List Nat)) (ln : List Nat) (mt : List (List Nat))
    (h : validate w.table w.store maxEnd true ci ln mt = []) :
    ∃ r, resolve w = .ok r := by
  obtain ⟨hct, hc, _, _⟩ := validate_nil_iff.1 h
  obtain ⟨_, _, hwft, _, _, _, _, himp⟩ := invalidCriteriaCount_eq_zero hc
  obtain ⟨m, hm⟩ := checkTable_sound hwft hct
  have hb := invalidCriteriaCount_base_le w.table w.store true mt
  exact resolve_ok_of_valid hwf hm ⟨by omega, himp rfl⟩

/-- No crash, unlocked run: `w.store.imports` are then the freshly imported files, which only
name defined local criteria by `C15_import_refs_valid`. -/
theorem C15_no_panic_unlocked (w : World) (hwf : w.md.WF) (maxEnd : Nat)
    (ci : List (Nat × List Nat)) (ln : List Nat) (mt : List (List Nat))
    (h : validate w.table w.store maxEnd false ci ln mt = [])
    (hlive : ∀ f ∈ w.store.imports, f.RefsValid w.table.n) :
    ∃ r, resolve w = .ok r := by
  obtain ⟨hct, hc, _, _⟩ := validate_nil_iff.1 h
  obtain ⟨_, _, hwft, _⟩ := invalidCriteriaCount_eq_zero hc
  obtain ⟨m, hm⟩ := checkTable_sound hwft hct
  have hb := invalidCriteriaCount_base_le w.table w.store false mt
  exact resolve_ok_of_valid hwf hm ⟨by omega, hlive⟩

/-- Whatever the peers serve, importing into an accepted store (whose `criteria-map` targets
`validate` has checked) returns a file or a refusal naming the peer — never a panic. -/
theorem C15_import_no_panic (t : Table) (s : Store) (maxEnd : Nat) (locked : Bool)
    (ci : List (Nat × List Nat)) (ln : List Nat) (lm : Mapper) (hlm : Mapper.new t = .ok lm)
    (cfg : ImportCfg)
    (h : validate t s maxEnd locked ci ln (cfg.sources.flatMap (fun p => p.cmap.map (·.2))) = []) :
    ∃ r, importOne lm cfg = .ok r := by
  obtain ⟨_, hc, _, _⟩ := validate_nil_iff.1 h
  obtain ⟨_, _, _, _, _, _, hmt, _⟩ := invalidCriteriaCount_eq_zero hc
  have hn : lm.n = t.n := (new_ok hlm).2.2.2.1
  apply importOne_ok lm cfg (by rw [hn]; unfold Table.n; omega)
  intro p hp e he c hce
  rw [hn]
  exact hmt e.2 (List.mem_flatMap.2 ⟨p, hp, List.mem_map.2 ⟨e, he, rfl⟩⟩) c hce

/-- … and what it yields only names defined local criteria -/
theorem C15_import_refs_valid (t : Table) (lm : Mapper) (hlm : Mapper.new t = .ok lm)
    (cfg : ImportCfg) (f : AFile) (h : importOne lm cfg = .ok (.ok f)) : f.RefsValid t.n := by
  have hn : lm.n = t.n := (new_ok hlm).2.2.2.1
  rw [← hn]
  exact importOne_refsValid h

/-- freshness marking against imports.lock does not touch criteria -/
theorem C15_freshness_refs_valid (n : Nat) (live lock : AFile) (h : live.RefsValid n) :
    (updateFreshness live lock).RefsValid n := by
  exact updateFreshness_refsValid h

/-! Regression witnesses: the worlds of the former findings.  Each was accepted by `validate`
and made `resolve` (or the import step) panic; each is now refused. -/

def resolveOutcome (w : World) : Option Panic :=
  match resolve w with
  | .ok _ => none
  | .error p => some p

/-- F6: undefined criterion in a `trusted` entry -/
def c15Trusted : World :=
  { table := [], md := c04Meta,
    store := { imports := [], locals := ⟨[], []⟩, trusted := [(1, [⟨7, 0, 100, [9]⟩])],
               publishers := [(1, [⟨0, 7, 5, false⟩])], unpublished := [], exemptions := [], policy := [] } }

theorem C15_fixed_trusted :
    validate c15Trusted.table c15Trusted.store 1000 true [] [] [] = [.invalidCriteria] ∧
    resolveOutcome c15Trusted = some .unknownCriterion := by
  constructor <;> decide +kernel

/-- F11: imports.lock audit naming an undefined criterion, loaded with --locked -/
def c15Lock : World :=
  { table := [], md := c04Meta,
    store := { imports := [⟨[(1, [⟨.full 0, [9], true, false⟩])], []⟩], locals := ⟨[], []⟩, trusted := [],
               publishers := [], unpublished := [], exemptions := [], policy := [] } }

theorem C15_fixed_lock :
    validate c15Lock.table c15Lock.store 1000 true [(0, [])] [0] [] = [.invalidCriteria] ∧
    resolveOutcome c15Lock = some .unknownCriterion := by
  constructor <;> decide +kernel

/-- the same lock is accepted by an unlocked load: there it is never evaluated, fresh imports
replace it (hypothesis `hlive` of `C15_no_panic_unlocked` is necessary) -/
theorem C15_unlocked_needs_live_imports :
    validate c15Lock.table c15Lock.store 1000 false [(0, [])] [0] [] = [] ∧
    resolveOutcome c15Lock = some .unknownCriterion := by
  constructor <;> decide +kernel

/-- F5: implication cycle in the project's own criteria table -/
def c15Cycle : World :=
  { table := [⟨0, [3]⟩, ⟨0, [2]⟩], md := c04Meta,
    store := { imports := [], locals := ⟨[], []⟩, trusted := [], publishers := [], unpublished := [],
               exemptions := [], policy := [] } }

theorem C15_fixed_cycle :
    validate c15Cycle.table c15Cycle.store 1000 true [] [] [] = [.invalidCriteriaTable] ∧
    resolveOutcome c15Cycle = some .impliesItself := by
  constructor <;> decide +kernel

/-- built-in criterion redefined in the project's own table -/
theorem C15_fixed_builtin_redefined :
    validate [⟨1, []⟩] c15Cycle.store 1000 true [] [] [] = [.invalidCriteriaTable] ∧
    resolveOutcome { c15Cycle with table := [⟨1, []⟩] } = some .dupCriteria := by
  constructor <;> decide +kernel

/-- F10: criteria-map target naming an undefined local criterion -/
theorem C15_fixed_criteria_map :
    validate [] c15Cycle.store 1000 false [] [] [[9]] = [.invalidCriteria] ∧
    importSource ⟨2, [1, 3]⟩ [] ⟨[⟨0, []⟩], [(0, 0)], [], [], [(2, [9])]⟩ = .error .unknownCriterion := by
  constructor <;> decide +kernel

/-- F5 (peer variant): a peer serving a cyclic criteria table is refused by the importer -/
theorem C15_fixed_peer_cycle :
    importOne ⟨2, [1, 3]⟩ ⟨[⟨[⟨0, [3]⟩, ⟨0, [2]⟩], [(0, 0), (1, 0)], [], [], []⟩], []⟩ = .ok .refused ∧
    importSource ⟨2, [1, 3]⟩ [] ⟨[⟨0, [3]⟩, ⟨0, [2]⟩], [(0, 0), (1, 0)], [], [], []⟩ = .error .impliesItself := by
  constructor <;> decide +kernel

end Vet
