/-
C15 — malformed stores are refused or processed, never crash.  On the current tree the code
does not check every reference (known findings): the counterexamples below are kernel-evaluated
on the model and replayed on the real code by the harness.  What holds is proved as
`C15_checked_sites`, `C15_refused_iff`, `C06_cap` and `C15_no_panic_partial`.
Property theorems only; helper lemmas live in Vet/Lemmas/Validate*.lean.
-/
import Vet.Lemmas.Validate
import Vet.Lemmas.ValidateNoPanic
namespace Vet

/-- what `validate` guarantees when it accepts a store: every criteria reference in
exemptions, policy, `implies`, local audits and local wildcard audits is defined -/
theorem C15_checked_sites (t : Table) (s : Store) (maxEnd : Nat) (locked : Bool)
    (ci : List (Nat × List Nat)) (ln : List Nat) (h : validate t s maxEnd locked ci ln = []) :
    (∀ e ∈ s.exemptions, ∀ x ∈ e.2, ∀ c ∈ x.criteria, c < t.n) ∧
    (∀ c ∈ t, ∀ i ∈ c.implies, i < t.n) ∧
    (∀ e ∈ s.locals.audits, ∀ a ∈ e.2, ∀ c ∈ a.criteria, c < t.n) ∧
    (∀ e ∈ s.locals.wildcards, ∀ a ∈ e.2, ∀ c ∈ a.criteria, c < t.n) ∧
    (∀ name ver e, s.policy.get name ver = some e →
      (∀ l, e.criteria = some l → ∀ c ∈ l, c < t.n) ∧ (∀ l, e.devCriteria = some l → ∀ c ∈ l, c < t.n) ∧
      (∀ d ∈ e.depCriteria, ∀ c ∈ d.2, c < t.n)) := by
  obtain ⟨hc, _, _⟩ := validate_nil_iff.1 h
  obtain ⟨h1, h2, h3, h4, h5⟩ := invalidCriteriaCount_eq_zero hc
  refine ⟨h1, h3, h4, h5, ?_⟩
  intro name ver e hg
  exact (policyEntryBad_eq_zero_iff t.n e).1 (policyBad_zero_get h2 hg)

/-- an undefined criterion at any checked site is refused -/
theorem C15_refused_exemption (t : Table) (s : Store) (maxEnd : Nat) (locked : Bool)
    (ci : List (Nat × List Nat)) (ln : List Nat)
    (e : Nat × List Exemption) (he : e ∈ s.exemptions) (x : Exemption) (hx : x ∈ e.2)
    (c : Nat) (hc : c ∈ x.criteria) (hbad : t.n ≤ c) :
    validate t s maxEnd locked ci ln ≠ [] := by
  apply validate_ne_nil_of_count
  have := nested_pos (fun x : Exemption => x.criteria) he hx hc hbad
  unfold invalidCriteriaCount
  simp only
  omega

theorem C15_refused_audit (t : Table) (s : Store) (maxEnd : Nat) (locked : Bool)
    (ci : List (Nat × List Nat)) (ln : List Nat)
    (e : Nat × List Audit) (he : e ∈ s.locals.audits) (a : Audit) (ha : a ∈ e.2)
    (c : Nat) (hc : c ∈ a.criteria) (hbad : t.n ≤ c) :
    validate t s maxEnd locked ci ln ≠ [] := by
  apply validate_ne_nil_of_count
  have := nested_pos (fun x : Audit => x.criteria) he ha hc hbad
  unfold invalidCriteriaCount
  simp only
  omega

theorem C15_refused_implies (t : Table) (s : Store) (maxEnd : Nat) (locked : Bool)
    (ci : List (Nat × List Nat)) (ln : List Nat)
    (cc : CustomCrit) (hcc : cc ∈ t) (i : Nat) (hi : i ∈ cc.implies) (hbad : t.n ≤ i) :
    validate t s maxEnd locked ci ln ≠ [] := by
  apply validate_ne_nil_of_count
  have h1 := badRefs_pos hi hbad
  have h2 := le_map_sum_of_mem (fun c : CustomCrit => badRefs t.n c.implies) hcc
  unfold invalidCriteriaCount
  simp only at h2 ⊢
  omega

/-- C06: a project's own wildcard audits ending after `today + 12 months` are refused at load,
and an accepted store has none -/
theorem C06_cap (t : Table) (s : Store) (maxEnd : Nat) (locked : Bool)
    (ci : List (Nat × List Nat)) (ln : List Nat) :
    (validate t s maxEnd locked ci ln = [] →
      ∀ e ∈ s.locals.wildcards, ∀ w ∈ e.2, w.stop ≤ maxEnd) ∧
    (∀ e ∈ s.locals.wildcards, ∀ w ∈ e.2, maxEnd < w.stop →
      ValidateError.badWildcardEndDate ∈ validate t s maxEnd locked ci ln) := by
  constructor
  · intro h
    exact (lateWildcards_eq_zero_iff maxEnd s).1 (validate_nil_iff.1 h).2.1
  · intro e he w hw hlate
    have hpos : lateWildcards maxEnd s ≠ 0 := by
      intro h0
      have := (lateWildcards_eq_zero_iff maxEnd s).1 h0 e he w hw
      omega
    unfold validate
    exact List.mem_append_left _ (List.mem_append_right _ (List.mem_replicate.2 ⟨hpos, rfl⟩))

/-- C07 (locked mode): a lock that records audits or wildcard audits of a crate the
configuration excludes, or whose import names differ from the configured ones, is refused -/
theorem C07_locked_excluded_refused (t : Table) (s : Store) (maxEnd : Nat)
    (ci : List (Nat × List Nat)) (ln : List Nat)
    (hbad : importsLockOutdated ci ln s.imports = true) :
    ValidateError.importsLockOutdated ∈ validate t s maxEnd true ci ln := by
  unfold validate
  apply List.mem_append_right
  simp [hbad]

/-- No crash: if the criteria table is well formed and every criteria reference the resolver
will evaluate is defined (what `validate` checks, plus trusted entries and imports.lock, which
it does not), `resolve` returns a report — it never panics. -/
theorem C15_no_panic_partial (w : World) (hwf : w.md.WF) (m : Mapper)
    (hm : Mapper.new w.table = .ok m) (hv : AllRefsValid w.table w.store) :
    ∃ r, resolve w = .ok r :=
  resolve_ok_of_valid hwf hm hv

/-! Known findings: unchecked sites.  Each world is accepted by `validate` and makes `resolve`
(or the import step) panic. -/

def resolveOutcome (w : World) : Option Panic :=
  match resolve w with
  | .ok _ => none
  | .error p => some p

/-- F6: undefined criterion in a `trusted` entry -/
def c15Trusted : World :=
  { table := [], md := c04Meta,
    store := { imports := [], locals := ⟨[], []⟩, trusted := [(1, [⟨7, 0, 100, [9]⟩])],
               publishers := [(1, [⟨0, 7, 5, false⟩])], unpublished := [], exemptions := [], policy := [] } }

theorem C15_counterexample_trusted :
    validate c15Trusted.table c15Trusted.store 1000 true [] [] = [] ∧
    resolveOutcome c15Trusted = some .unknownCriterion := by
  constructor <;> decide +kernel

/-- F11: imports.lock audit naming an undefined criterion, loaded with --locked -/
def c15Lock : World :=
  { table := [], md := c04Meta,
    store := { imports := [⟨[(1, [⟨.full 0, [9], true, false⟩])], []⟩], locals := ⟨[], []⟩, trusted := [],
               publishers := [], unpublished := [], exemptions := [], policy := [] } }

theorem C15_counterexample_lock :
    validate c15Lock.table c15Lock.store 1000 true [(0, [])] [0] = [] ∧
    resolveOutcome c15Lock = some .unknownCriterion := by
  constructor <;> decide +kernel

/-- F5: implication cycle in the project's own criteria table -/
def c15Cycle : World :=
  { table := [⟨0, [3]⟩, ⟨0, [2]⟩], md := c04Meta,
    store := { imports := [], locals := ⟨[], []⟩, trusted := [], publishers := [], unpublished := [],
               exemptions := [], policy := [] } }

theorem C15_counterexample_cycle :
    validate c15Cycle.table c15Cycle.store 1000 true [] [] = [] ∧
    resolveOutcome c15Cycle = some .impliesItself := by
  constructor <;> decide +kernel

/-- built-in criterion redefined in the project's own table -/
theorem C15_counterexample_builtin_redefined :
    validate [⟨1, []⟩] c15Cycle.store 1000 true [] [] = [] ∧
    resolveOutcome { c15Cycle with table := [⟨1, []⟩] } = some .dupCriteria := by
  constructor <;> decide +kernel

/-- F10: criteria-map target naming an undefined local criterion panics while importing -/
theorem C15_counterexample_criteria_map :
    importSource ⟨2, [1, 3]⟩ [] ⟨[⟨0, []⟩], [(0, 0)], [], [], [(2, [9])]⟩ = .error .unknownCriterion := by
  decide +kernel

/-- F5 (peer variant): a peer serving a cyclic criteria table panics the importer -/
theorem C15_counterexample_peer_cycle :
    importSource ⟨2, [1, 3]⟩ [] ⟨[⟨0, [3]⟩, ⟨0, [2]⟩], [(0, 0), (1, 0)], [], [], []⟩ = .error .impliesItself := by
  decide +kernel

end Vet
