/-
C19 — statements that are FALSE as originally written, kept verbatim as `Prop`s together with
machine-checked refutations.  The closest true statement is `C19_complete_is_ok_partial3` in
`Vet/Props/C19.lean` (extra hypotheses `srcDir.length + 2 < 64` and "after unpacking, the marker
path is not a directory").

Reason: `canon` (the model of `canonicalize`) runs on fuel 64, one unit per path component plus one.
`hcanon : canon fs 64 [] srcDir = some srcDir` only forces `srcDir.length ≤ 63`; the completion
marker lives two components deeper, so for a source directory 62 (or 63) components deep
`fetchIsOk` cannot resolve the marker path and answers `false` even after a complete unpack.
Witness: a chain of 62 nested directories named 7, crate 1, empty archive.

Second statement (`C19_complete_is_ok_partial2_stmt`, the first one plus `srcDir.length + 2 < 64`):
false since `writeThrough` models EISDIR.  An entry `<crate>/.cargo-ok/4` is not the archive's own
marker entry; unpacking it makes `<crate>/.cargo-ok` a directory, so the marker cannot be written
and `fetchIsOk` answers `false` after a complete unpack.  Witness: `cache0`, crate 1, that archive.
-/
import Vet.Props.C19
namespace Vet.Unpack
namespace C19Todo

def C19_complete_is_ok_stmt : Prop :=
  ∀ (fs : FS) (srcDir : Path) (prefix_ : Nat) (archive : List Entry)
    (_hnl : ∀ e ∈ archive, isLink e = false) (_hfs : NoLinksUnder fs srcDir)
    (_hsrc : lookup fs srcDir = some .dir) (_hcanon : canon fs 64 [] srcDir = some srcDir)
    (_hall : (unpackEntries (set (removeTree fs (srcDir ++ [prefix_])) (srcDir ++ [prefix_]) .dir)
      srcDir prefix_ archive archive.length).2 = true),
    fetchIsOk (unpackPackage fs srcDir prefix_ archive none) srcDir prefix_ = true

/-- `[], [7], [7,7], …` up to depth `n`, all directories -/
def chain (n : Nat) : FS := (List.range (n + 1)).map (fun i => (List.replicate i 7, Node.dir))

theorem chain_noLinks (n : Nat) (src : Path) : NoLinksUnder (chain n) src := by
  intro p nd hmem _ t hn
  simp only [chain, List.mem_map] at hmem
  obtain ⟨i, _, hi⟩ := hmem
  injection hi with _ h2
  rw [← h2] at hn
  cases hn

theorem C19_complete_is_ok_false : ¬ C19_complete_is_ok_stmt := by
  intro h
  have := h (chain 62) (List.replicate 62 7) 1 [] (by simp) (chain_noLinks _ _)
    (by decide +kernel) (by decide +kernel) rfl
  revert this
  decide +kernel

def C19_complete_is_ok_partial2_stmt : Prop :=
  ∀ (fs : FS) (srcDir : Path) (prefix_ : Nat) (archive : List Entry)
    (_hnl : ∀ e ∈ archive, isLink e = false) (_hfs : NoLinksUnder fs srcDir)
    (_hsrc : lookup fs srcDir = some .dir) (_hcanon : canon fs 64 [] srcDir = some srcDir)
    (_hlen : srcDir.length + 2 < 64)
    (_hall : (unpackEntries (set (removeTree fs (srcDir ++ [prefix_])) (srcDir ++ [prefix_]) .dir)
      srcDir prefix_ archive archive.length).2 = true),
    fetchIsOk (unpackPackage fs srcDir prefix_ archive none) srcDir prefix_ = true

theorem C19_complete_is_ok_partial2_false : ¬ C19_complete_is_ok_partial2_stmt := by
  intro h
  have := h cache0 [9, 5] 1 [⟨[.normal 1, .normal 0, .normal 4], .file 40⟩] (by decide +kernel)
    cache0_noLinks (by decide +kernel) (by decide +kernel) (by decide +kernel) (by decide +kernel)
  revert this
  decide +kernel

end C19Todo
end Vet.Unpack
