/-
C07 — imports are confined by local configuration: criteria map, exclude, importable.
Property theorems only; helper lemmas live in Vet/Lemmas/Imports*.lean.
-/
import Vet.Lemmas.Imports
import Vet.Lemmas.ImportsMap
import Vet.Lemmas.ImportsMerge
namespace Vet

/-- Per-entry tolerance: the sanitised list is the concatenation of per-entry results, so an
unparseable (or unknown-criteria-only) entry changes nothing about how the others are read. -/
theorem C07_skip_local_append (n : Nat) (l₁ l₂ : List (Bool × Audit)) :
    sanitizeAudits n (l₁ ++ l₂) = sanitizeAudits n l₁ ++ sanitizeAudits n l₂ :=
  sanitizeAudits_append n l₁ l₂

theorem C07_skip_local_unparseable (n : Nat) (l₁ l₂ : List (Bool × Audit)) (x : Audit) :
    sanitizeAudits n (l₁ ++ (false, x) :: l₂) = sanitizeAudits n (l₁ ++ l₂) := by
  rw [sanitizeAudits_append, sanitizeAudits_cons_false, ← sanitizeAudits_append]

theorem C07_skip_local_unknown_criteria (n : Nat) (l₁ l₂ : List (Bool × Audit)) (x : Audit) (b : Bool)
    (hx : ∀ c ∈ x.criteria, n ≤ c) :
    sanitizeAudits n (l₁ ++ (b, x) :: l₂) = sanitizeAudits n (l₁ ++ l₂) := by
  rw [sanitizeAudits_append, sanitizeAudits_cons_unknown n l₂ x b hx, ← sanitizeAudits_append]

theorem C07_skip_local_wildcards (n : Nat) (l₁ l₂ : List (Bool × Wildcard)) (x : Wildcard) :
    sanitizeWildcards n (l₁ ++ (false, x) :: l₂) = sanitizeWildcards n (l₁ ++ l₂) := by
  rw [sanitizeWildcards_append, sanitizeWildcards_cons_false, ← sanitizeWildcards_append]

/-- Every imported audit comes from a parseable, importable raw entry of the same crate and
kind that is not excluded; and the local criteria it is given denote exactly the justified set:
it contributes to local criterion `c` iff some foreign criterion in the peer-closure of its
(known) criteria is mapped to a set containing `c`.  In particular unmapped peer criteria
contribute nothing and a built-in overridden with `[]` contributes nothing. -/
theorem C07_map (lm : Mapper) (lt : Table) (hlm : Mapper.new lt = .ok lm)
    (exclude : List Nat) (p : PeerFile) (f : AFile)
    (hnd : (p.audits.map (·.1)).Nodup)
    (h : importSource lm exclude p = .ok f) (name : Nat) (a' : Audit) (ha : a' ∈ getL name f.audits) :
    ∃ fm raw, Mapper.new (sanitizeTable p.table) = .ok fm ∧
      (true, raw) ∈ getL name p.audits ∧ raw.importable = true ∧ name ∉ exclude ∧
      a'.kind = raw.kind ∧ a'.fresh = true ∧
      ∃ s, lm.fromList a'.criteria = .ok s ∧
        ∀ c, s.testBit c = true ↔
          Justified lm fm p.cmap (raw.criteria.filter (fun i => decide (i < fm.n))) c := by
  obtain ⟨fm, mapping, hfm, hmap, hA, _⟩ := importSource_inv lm exclude p f h
  obtain ⟨l', hl', hal', _⟩ := mem_getL name f.audits a' ha
  obtain ⟨l, hl, hloc⟩ := mapTable_mem _ _ _ hA name l' hl'
  obtain ⟨hex, rl, hrl, rfl⟩ := mem_preAudits _ _ _ _ _ hl
  obtain ⟨a, c, hmem, hc, rfl⟩ := localizeAudits_mem lm fm mapping _ _ hloc a' hal'
  obtain ⟨hsan, himp⟩ := List.mem_filter.1 hmem
  obtain ⟨raw, hraw, rfl⟩ := mem_sanitizeAudits _ _ _ hsan
  refine ⟨fm, raw, hfm, ?_, himp, hex, rfl, rfl, ?_⟩
  · rw [getL_of_mem_nodup name p.audits rl hnd hrl]; exact hraw
  · exact makeLocal_spec lt lm hlm fm p.cmap mapping hmap _ c hc

/-- the same for wildcard audits -/
theorem C07_map_wildcard (lm : Mapper) (lt : Table) (hlm : Mapper.new lt = .ok lm)
    (exclude : List Nat) (p : PeerFile) (f : AFile)
    (hnd : (p.wildcards.map (·.1)).Nodup)
    (h : importSource lm exclude p = .ok f) (name : Nat) (w' : Wildcard) (hw : w' ∈ getL name f.wildcards) :
    ∃ fm raw, Mapper.new (sanitizeTable p.table) = .ok fm ∧
      (true, raw) ∈ getL name p.wildcards ∧ name ∉ exclude ∧
      w'.user = raw.user ∧ w'.start = raw.start ∧ w'.stop = raw.stop ∧
      ∃ s, lm.fromList w'.criteria = .ok s ∧
        ∀ c, s.testBit c = true ↔
          Justified lm fm p.cmap (raw.criteria.filter (fun i => decide (i < fm.n))) c := by
  obtain ⟨fm, mapping, hfm, hmap, _, hW⟩ := importSource_inv lm exclude p f h
  obtain ⟨l', hl', hal', _⟩ := mem_getL name f.wildcards w' hw
  obtain ⟨l, hl, hloc⟩ := mapTable_mem _ _ _ hW name l' hl'
  obtain ⟨hex, rl, hrl, rfl⟩ := mem_preWild _ _ _ _ _ hl
  obtain ⟨a, c, hmem, hc, rfl⟩ := localizeWildcards_mem lm fm mapping _ _ hloc w' hal'
  obtain ⟨raw, hraw, rfl⟩ := mem_sanitizeWildcards _ _ _ hmem
  refine ⟨fm, raw, hfm, ?_, hex, rfl, rfl, rfl, ?_⟩
  · rw [getL_of_mem_nodup name p.wildcards rl hnd hrl]; exact hraw
  · exact makeLocal_spec lt lm hlm fm p.cmap mapping hmap _ c hc

/-- crates listed in `exclude` contribute no audit, violation or wildcard audit -/
theorem C07_exclude (lm : Mapper) (exclude : List Nat) (p : PeerFile) (f : AFile)
    (h : importSource lm exclude p = .ok f) (name : Nat) (hn : name ∈ exclude) :
    getL name f.audits = [] ∧ getL name f.wildcards = [] ∧
    (∀ e ∈ f.audits, e.1 ≠ name) ∧ (∀ e ∈ f.wildcards, e.1 ≠ name) := by
  obtain ⟨fm, mapping, hfm, hmap, hA, hW⟩ := importSource_inv lm exclude p f h
  have h1 : ∀ e ∈ f.audits, e.1 ≠ name := by
    rintro ⟨k, l'⟩ he rfl
    obtain ⟨l, hl, _⟩ := mapTable_mem _ _ _ hA k l' he
    exact (mem_preAudits _ _ _ _ _ hl).1 hn
  have h2 : ∀ e ∈ f.wildcards, e.1 ≠ name := by
    rintro ⟨k, l'⟩ he rfl
    obtain ⟨l, hl, _⟩ := mapTable_mem _ _ _ hW k l' he
    exact (mem_preWild _ _ _ _ _ hl).1 hn
  exact ⟨getL_nil_of _ _ h1, getL_nil_of _ _ h2, h1, h2⟩

/-- a multi-URL import behaves like the union of its sources: per crate, the entries of the
result are exactly the entries of the individually imported sources, in source order -/
theorem C07_multi_url (lm : Mapper) (cfg : ImportCfg) (p₁ p₂ : PeerFile) (f f₁ f₂ : AFile)
    (hs : cfg.sources = [p₁, p₂])
    (h : importOne lm cfg = .ok (.ok f))
    (h₁ : importSource lm cfg.exclude p₁ = .ok f₁) (h₂ : importSource lm cfg.exclude p₂ = .ok f₂)
    (hk₁ : (f₁.audits.map (·.1)).Pairwise (· < ·)) (hk₂ : (f₂.audits.map (·.1)).Pairwise (· < ·))
    (name : Nat) :
    getL name f.audits = getL name f₁.audits ++ getL name f₂.audits := by
  unfold importOne at h
  rw [hs] at h
  cases hc₁ : checkTable (sanitizeTable p₁.table) with
  | false =>
    simp only [importOne.go, hc₁, Bool.not_false, if_true] at h
    cases h
  | true =>
  cases hc₂ : checkTable (sanitizeTable p₂.table) with
  | false =>
    simp only [importOne.go, hc₁, hc₂, h₁, Bool.not_false, Bool.not_true, Bool.false_eq_true,
      if_true, if_false] at h
    cases h
  | true =>
  have hgo : importOne.go lm cfg [p₁, p₂] = .ok (some [f₁, f₂]) := by
    simp only [importOne.go, h₁, h₂, hc₁, hc₂, Bool.not_true, Bool.false_eq_true, if_false]
  rw [hgo] at h
  simp only at h
  split at h
  · cases h
  · simp only [Except.ok.injEq, ImportResult.ok.injEq] at h
    subst h
    simp only [List.foldl_cons, List.foldl_nil]
    rw [importSource_filter_id lm _ p₁ f₁ h₁, importSource_filter_id lm _ p₂ f₂ h₂]
    have nd : ∀ l : List Nat, l.Pairwise (· < ·) → l.Nodup := fun l hl =>
      hl.imp (fun h => Nat.ne_of_lt h)
    rw [getL_mergeTables name _ _ (mergeTables_sorted _ _ (by simp)) (nd _ hk₂),
      getL_mergeTables name _ _ (by simp) (nd _ hk₁)]
    simp [getL, assoc?]

/-- freshness marking only clears flags: the live view keeps every entry, in order, with the
same content -/
theorem C07_freshness_only_flags (live lock : AFile) :
    (updateFreshness live lock).audits.map (fun e => (e.1, e.2.map (fun a => { a with fresh := false })))
      = live.audits.map (fun e => (e.1, e.2.map (fun a => { a with fresh := false }))) := by
  simp only [updateFreshness]
  exact markTable_clear sameAudit (·.fresh) (fun a => { a with fresh := false })
    (fun a => { a with fresh := false }) (fun _ => rfl) live.audits lock.audits

end Vet
