/-
C17, end to end at the level of `resolve` and the records: certifying everything that is
proposed makes vet pass (unless a violation conflict exists).

STATEMENTS to be proved (no `sorry` may remain; do not weaken; if a statement is false as written,
keep it, prove its negation on a concrete witness with `decide +kernel`, and prove a `_partial`
variant whose extra hypothesis is explicit).
-/
import Vet.Props.C17
import Vet.Props.Resolve
import Vet.Props.C05
import Vet.Spec.Demand
import Vet.Lemmas.Heal
import Vet.Props.C04
namespace Vet

open Vet.Sug

/-- `s'` is `s` plus extra local audits appended (per crate name) after the existing ones — what
`cargo vet certify` does to audits.toml; everything else is unchanged -/
structure Store.ExtendsAudits (s s' : Store) : Prop where
  imports : s'.imports = s.imports
  wildcards : s'.locals.wildcards = s.locals.wildcards
  trusted : s'.trusted = s.trusted
  publishers : s'.publishers = s.publishers
  unpublished : s'.unpublished = s.unpublished
  exemptions : s'.exemptions = s.exemptions
  policy : s'.policy = s.policy
  audits : ∀ name, ∃ extra, getL name s'.locals.audits = getL name s.locals.audits ++ extra

/-- the audit kind spells the step `f → t` -/
def Audit.connects (a : Audit) (f : Option Nat) (t : Nat) : Prop :=
  (a.kind = .full t ∧ f = none) ∨ (∃ f', a.kind = .delta f' t ∧ f = some f')

/-- every certifying chain of `s` is a certifying chain of an extension -/
theorem certChain_extends {s s' : Store} (hext : s.ExtendsAudits s') (m : Mapper) (name c v : Nat)
    (h : CertChain s m name c v) : CertChain s' m name c v := by
  obtain ⟨p, hp⟩ := h
  obtain ⟨extra, haud⟩ := hext.audits name
  exact ⟨p, hp.mono (fun _ _ _ he => he.extend hext.imports hext.wildcards hext.trusted
    hext.publishers hext.unpublished hext.exemptions haud)⟩

/-- C17 (healing, end to end).  Vet fails for missing audits; audits are then added to audits.toml
such that every failed (package, criterion) pair is served by an added audit that certifies the
criterion and leads from a version the failed search reached from the root to a version from
which it reached the target.  Then vet on the new store succeeds, unless some crate now has a
violation conflict. -/
theorem C17_all_heal (w : World) (r : Report) (h : resolve w = .ok r)
    (fs : List (Nat × CSet)) (hf : r.conclusion = .failVet fs)
    (s' : Store) (hext : w.store.ExtendsAudits s')
    (r' : Report) (h' : resolve { w with store := s' } = .ok r')
    (hnoconf : ∀ (i : Nat) (p : PkgNode), r'.graph.nodes[i]? = some p → p.thirdParty = true →
      ∃ g, build s' r'.mapper p.name = .ok (.graph g))
    (hserved : ∀ (i : Nat) (bits : CSet), (i, bits) ∈ fs →
      ∀ (p : PkgNode), r.graph.nodes[i]? = some p →
      ∀ (results : List SearchOutcome), r.results[i]? = some (.searched results) →
      ∀ (c : Nat) (fr ft : List (Option Nat)), bits.testBit c = true →
        results[c]? = some (.fail fr ft) →
        ∃ (a : Audit) (j : Nat) (f : Option Nat) (t : Nat) (cs : CSet),
          (none, j, a) ∈ allAudits s' p.name ∧ a.connects f t ∧ f ∈ fr ∧ some t ∈ ft ∧
          r.mapper.fromList a.criteria = .ok cs ∧ cs.testBit c = true) :
    ∃ a b f, r'.conclusion = .success a b f := by
  obtain ⟨eg, em, ereq⟩ := resolve_shared (w := w) hext.policy h h'
  apply C02_no_false_failure { w with store := s' } r' h' hnoconf
  intro i p hp htp c hc
  rw [eg] at hp
  have hc' : r.required i c := by
    unfold Report.required at hc ⊢
    rw [em, ereq] at hc
    exact hc
  rw [em]
  show CertChain s' r.mapper p.name c p.ver
  by_cases hch : CertChain w.store r.mapper p.name c p.ver
  · exact certChain_extends hext _ _ _ _ hch
  · obtain ⟨bits, g, fr, ft, hmem, hbit, hb, hres, hget, hs⟩ := failed_pair h hf hp htp hc' hch
    obtain ⟨a, j, f, t, cs, ha, hcon, hfr, hft, hcs, hcb⟩ :=
      hserved i bits hmem p hp _ hres c fr ft hbit hget
    obtain ⟨hroot, htgt⟩ := fail_sets_certPath hb hs
    obtain ⟨p₁, cp₁⟩ := hroot f hfr
    obtain ⟨p₂, cp₂⟩ := htgt (some t) hft
    obtain ⟨extra, haud⟩ := hext.audits p.name
    have lift : ∀ a o b, CertEdge w.store r.mapper p.name c a o b →
        CertEdge s' r.mapper p.name c a o b :=
      fun _ _ _ he => he.extend hext.imports hext.wildcards hext.trusted
        hext.publishers hext.unpublished hext.exemptions haud
    have e : CertEdge s' r.mapper p.name c f (auditOrigin none j a) (some t) :=
      CertEdge.of_local ha hcs hcb hcon
    exact ⟨_, (cp₁.mono lift).append (CertPath.cons e (cp₂.mono lift))⟩

/-- the list of search failures of a failing package, as `suggest_delta` receives it: one
`Failure` per failed criterion -/
def failuresOf (results : List SearchOutcome) (bits : CSet) (n : Nat) : List Failure :=
  (CSet.indices n bits).filterMap (fun c =>
    match results.getD c (.panic .other) with
    | .fail fr ft => some ⟨fr, ft⟩
    | _ => none)

/-- C17 (suggestions serve).  If (1) every failing package has, among the items proposed before
de-duplication, one for its crate whose diff is a candidate of `suggest_delta` for that package's
failures (no git-revision rewrite) and whose criteria are exactly the package's missing criteria,
and (2) every item that survives de-duplication is certified: audits.toml of `s'` holds an audit
for that crate spelling the item's diff whose criteria list denotes a superset of the item's
criteria — then the hypothesis `hserved` of `C17_all_heal` holds. -/
theorem C17_suggestions_serve (w : World) (r : Report) (h : resolve w = .ok r)
    (fs : List (Nat × CSet)) (hf : r.conclusion = .failVet fs)
    (hasSources : Option Nat → Bool) (items : List Item) (s' : Store)
    (hitems : ∀ (i : Nat) (bits : CSet), (i, bits) ∈ fs →
      ∀ (p : PkgNode), r.graph.nodes[i]? = some p →
      ∀ (results : List SearchOutcome), r.results[i]? = some (.searched results) →
      ∃ x ∈ items, x.name = p.name ∧ x.criteria = bits ∧
        ∃ frr ftt, reachable hasSources (failuresOf results bits r.mapper.n) = some (frr, ftt) ∧
          (x.from_, x.to) ∈ candidates frr ftt)
    (hcert : ∀ y ∈ dedup items, ∃ (a : Audit) (j : Nat) (cs : CSet),
      (none, j, a) ∈ allAudits s' y.name ∧ a.connects y.from_ y.to ∧
      r.mapper.fromList a.criteria = .ok cs ∧ CSet.sub y.criteria cs) :
    ∀ (i : Nat) (bits : CSet), (i, bits) ∈ fs →
      ∀ (p : PkgNode), r.graph.nodes[i]? = some p →
      ∀ (results : List SearchOutcome), r.results[i]? = some (.searched results) →
      ∀ (c : Nat) (fr ft : List (Option Nat)), bits.testBit c = true →
        results[c]? = some (.fail fr ft) →
        ∃ (a : Audit) (j : Nat) (f : Option Nat) (t : Nat) (cs : CSet),
          (none, j, a) ∈ allAudits s' p.name ∧ a.connects f t ∧ f ∈ fr ∧ some t ∈ ft ∧
          r.mapper.fromList a.criteria = .ok cs ∧ cs.testBit c = true := by
  intro i bits hfs p hp results hr c fr ft hbit hres
  obtain ⟨x, hx, hxn, hxc, frr, ftt, hreach, hcand⟩ := hitems i bits hfs p hp results hr
  obtain ⟨y, hy, hyn, hyf, hyt, hyc⟩ := C17_dedup_keeps_twin items x hx
  obtain ⟨a, j, cs, ha, hcon, hcs, hsub⟩ := hcert y hy
  obtain ⟨p', hp', -, -, hbits⟩ := (C02_failures_exact w r h fs hf i bits).1 hfs
  have hcn : c < r.mapper.n := ((hbits c).1 hbit).1.1
  have hF : (⟨fr, ft⟩ : Failure) ∈ failuresOf results bits r.mapper.n := by
    unfold failuresOf
    rw [List.mem_filterMap]
    refine ⟨c, mem_indices_rl.2 ⟨hcn, hbit⟩, ?_⟩
    rw [getD_of_getElem? hres]
  obtain ⟨h1, h2⟩ := C17_candidate_connects hasSources _ frr ftt hreach _ hcand _ hF
  refine ⟨a, j, y.from_, y.to, cs, ?_, hcon, ?_, ?_, hcs, ?_⟩
  · rw [← hxn, ← hyn]; exact ha
  · rw [hyf]; exact h1
  · rw [hyt]; exact h2
  · exact hsub c (by rw [hyc, hxc]; exact hbit)

/-- the criteria `certify` writes for a suggestion — the minimal names of the missing set — denote
a superset of the missing set (so `hcert`'s `CSet.sub` is what certifying a suggestion for its
proposed criteria gives) -/
theorem C17_proposed_criteria_cover (t : Table) (m : Mapper) (hm : Mapper.new t = .ok m) (bits : CSet)
    (hb : ∀ c, bits.testBit c = true → c < m.n) (cs : CSet)
    (h : m.fromList (m.minimal bits) = .ok cs) : CSet.sub bits cs := by
  intro c hc
  obtain ⟨b, hbm, hbc⟩ := exists_minimal hm bits _ c (Nat.le_refl _) (hb c hc) hc
  exact (C05_fromList_spec t m hm _ cs h c).2 ⟨b, hbm, hbc⟩


/-! ### non-vacuity: a concrete failing world and its healed extension -/

/-- member `a` depends on crates.io crate `b` (name 1) version 1; only a delta 0 → 1 for
safe-to-deploy is recorded, so vet fails for `b` missing safe-to-deploy (and safe-to-run) -/
def c17World : World :=
  { table := [], md := ⟨[⟨0, 0, 0, false, [(1, 1)]⟩, ⟨1, 1, 1, true, []⟩], [0]⟩,
    store := { imports := [], locals := ⟨[(1, [⟨.delta 0 1, [1], true, false⟩])], []⟩,
               trusted := [], publishers := [], unpublished := [], exemptions := [], policy := [] } }

/-- the store after certifying the proposed full audit of version 0 -/
def c17Healed : Store :=
  { c17World.store with locals := ⟨[(1, [⟨.delta 0 1, [1], true, false⟩, ⟨.full 0, [1], true, false⟩])], []⟩ }

example : conclusionOf c17World = some (.failVet [(1, 3)]) := by decide +kernel
example : conclusionOf { c17World with store := c17Healed } = some (.success [] [] [1]) := by decide +kernel
example : c17World.store.ExtendsAudits c17Healed where
  imports := rfl
  wildcards := rfl
  trusted := rfl
  publishers := rfl
  unpublished := rfl
  exemptions := rfl
  policy := rfl
  audits := fun name => by
    by_cases h : name = 1
    · subst h; exact ⟨[⟨.full 0, [1], true, false⟩], by decide⟩
    · refine ⟨[], ?_⟩
      simp [getL, assoc?, c17Healed, c17World, Ne.symm h]

end Vet
