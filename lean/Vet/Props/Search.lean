/-
The three facts about `search_for_path` on which C01, C02, C10, C12, C13 and C17 rest.
Property theorems only; helper lemmas live in Vet/Lemmas/Search*.lean.
-/
import Vet.Lemmas.Search
import Vet.Lemmas.SearchFuel
namespace Vet

/-- Soundness: a returned path is a walk from the source to the target using only edges
that carry the criterion (or, when regenerating, exemption edges and the fresh pseudo-edge). -/
theorem search_sound (adj : Option Nat → List Edge) (c : Nat) (src tgt : Option Nat) (mode : Mode)
    (fuel : Nat) (p : List Origin)
    (h : searchLoop adj c tgt mode fuel (initQueue src) [] = .found p) :
    ∃ l, Walk adj mode c src p l tgt := by
  obtain ⟨l, w, _⟩ := searchLoop_found fuel _ _ _ (Inv.init adj mode c src tgt) p h
  exact ⟨l, w⟩

/-- Completeness: when the search gives up, the visited set is exactly the set of versions
reachable from the source, and the target is not among them — every usable edge was tried. -/
theorem search_complete (adj : Option Nat → List Edge) (c : Nat) (src tgt : Option Nat) (mode : Mode)
    (fuel : Nat) (vis : List (Option Nat))
    (h : searchLoop adj c tgt mode fuel (initQueue src) [] = .notFound vis) :
    (∀ v, v ∈ vis ↔ ∃ p l, Walk adj mode c src p l v) ∧ tgt ∉ vis := by
  obtain ⟨d, inv⟩ := searchLoop_notFound fuel _ _ _ (Inv.init adj mode c src tgt) vis h
  exact ⟨inv.reachable_iff, inv.tgt⟩

/-- Minimax optimality: the returned path minimises the greatest caveat level over all
walks from the source to the target. -/
theorem search_minimax (adj : Option Nat → List Edge) (c : Nat) (src tgt : Option Nat) (mode : Mode)
    (fuel : Nat) (p : List Origin)
    (h : searchLoop adj c tgt mode fuel (initQueue src) [] = .found p) :
    ∃ l, Walk adj mode c src p l tgt ∧ ∀ p' l', Walk adj mode c src p' l' tgt → l ≤ l' :=
  searchLoop_found fuel _ _ _ (Inv.init adj mode c src tgt) p h

/-- The fuel bound is sufficient: the search never runs out of fuel on any graph. -/
theorem search_fuel_enough (g : Graph) (backward : Bool) (c : Nat) (src tgt : Option Nat) (mode : Mode) :
    searchForPath g backward c src tgt mode ≠ .outOfFuel := by
  unfold searchForPath
  cases backward with
  | true =>
    apply searchLoop_fuel g.edges (fun t => t.dst) _ c tgt mode (backward_length g)
    have h1 := wsum_initQueue src
    have h2 := pending_le g.edges (fun t => t.dst) []
    simp only [searchFuel]
    omega
  | false =>
    apply searchLoop_fuel g.edges (fun t => t.src) _ c tgt mode (forward_length g)
    have h1 := wsum_initQueue src
    have h2 := pending_le g.edges (fun t => t.src) []
    simp only [searchFuel]
    omega

/-- When regenerating exemptions a search towards the root always succeeds
(the `assert!` at resolver.rs:1431 cannot fire). -/
theorem search_regenerate_total (g : Graph) (c : Nat) (v : Nat) :
    ∃ p, search g c v .regenerateExemptions = .ok p := by
  have hfuel := search_fuel_enough g true c (some v) none .regenerateExemptions
  unfold search
  split
  · rename_i p _
    exact ⟨p, rfl⟩
  · rename_i hout
    exact absurd hout hfuel
  · rename_i vis hnf
    exfalso
    have hc := search_complete g.backward c (some v) none .regenerateExemptions (searchFuel g) vis
      (by simpa only [searchForPath, initQueue, if_true] using hnf)
    have hw : Walk g.backward .regenerateExemptions c (some v) ([] ++ [.freshExemption v])
        (max 0 8) none := Walk.snoc (Walk.nil _) (Step.fresh rfl)
    exact hc.2 ((hc.1 none).2 ⟨_, _, hw⟩)

end Vet
