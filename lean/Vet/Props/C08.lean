/-
C08 — no crates.io code escapes vetting by arriving as a path, git or patched crate.
Property theorems only; helper lemmas live in Vet/Lemmas/Registry.lean.
-/
import Vet.Lemmas.Registry
namespace Vet

open Vet.Reg

/-- every package whose source is crates.io is third-party, whatever the policy says -/
theorem C08_registry_always (md : Meta) (pol : Policy) (g : DepGraph)
    (h : DepGraph.new md pol = .ok g) (i : Nat) (hi : i < g.nodes.length) :
    ∃ p ∈ md.pkgs, (g.node i).name = p.name ∧ (g.node i).ver = p.ver ∧
      (p.cratesIo = true → (g.node i).thirdParty = true) ∧
      ((g.node i).thirdParty = true → p.cratesIo = true ∨ (pol.get p.name p.ver).bind (·.auditAs) = some true) := by
  obtain ⟨-, p, hp, hn, hv, ht⟩ := C03_third_party md pol g h i hi
  refine ⟨p, hp, hn, hv, ?_, ?_⟩
  · intro hc
    rw [ht, hc, Bool.true_or]
  · intro htp
    rw [ht] at htp
    rcases Bool.or_eq_true_iff.1 htp with h1 | h1
    · exact Or.inl h1
    · exact Or.inr (beq_iff_eq.1 h1)

/-- the version an unpublished one is vetted as: a published version; the greatest one not above
the local version if there is any, else the least one above it -/
theorem C08_unpublished_choice (published : List Nat) (v a : Nat) (h : auditedAs published v = some a) :
    a ∈ published ∧
    ((a ≤ v ∧ ∀ p ∈ published, p ≤ v → p ≤ a) ∨
     (v < a ∧ (∀ p ∈ published, v < p) ∧ ∀ p ∈ published, a ≤ p)) := auditedAs_spec h

/-- no link is needed exactly when the exact version is published -/
theorem C08_exact_iff (published : List Nat) (v : Nat) :
    auditedAs published v = some v ↔ v ∈ published := ⟨fun h => (auditedAs_spec h).1, auditedAs_exact⟩

theorem C08_auditedAs_total (published : List Nat) (v : Nat) (hne : published ≠ []) :
    ∃ a, auditedAs published v = some a := auditedAs_total hne

/-- recorded choices are never dropped by going online: every imports.lock entry is carried into
the live set unchanged in version and target, so a --locked run keeps what an earlier run chose
even after that version has been published -/
theorem C08_lock_entries_kept (lock : List UnpubEntry) (pkgs : List FirstParty) (es : List UnpubEntry)
    (h : importUnpublished lock pkgs = .ok es) :
    ∀ e ∈ lock, ∃ e' ∈ es, e'.name = e.name ∧ e'.version = e.version ∧ e'.auditedAs = e.auditedAs ∧
      e'.fresh = e.fresh := importUnpublished_kept h

/-- every new link is for a non-git package explicitly audited as crates.io whose exact version
is not published, and points at the version `auditedAs` chooses -/
theorem C08_new_entries_justified (lock : List UnpubEntry) (pkgs : List FirstParty) (es : List UnpubEntry)
    (h : importUnpublished lock pkgs = .ok es) (hl : ∀ e ∈ lock, e.fresh = false) :
    ∀ e ∈ es, e.fresh = true →
      ∃ p ∈ pkgs, p.auditAs = some true ∧ p.isGit = false ∧ p.name = e.name ∧ p.ver = e.version ∧
        ∃ vs, p.published = some vs ∧ auditedAs vs p.ver = some e.auditedAs ∧ e.auditedAs ≠ p.ver := by
  intro e he hf
  rcases importUnpublished_from h e he with ⟨e0, he0, hs⟩ | ⟨-, p, hp, hn, hv, ha, hg, vs, hvs, hau, hne⟩
  · have := hl e0 he0
    rw [← hs.2.2.2, hf] at this
    cases this
  · exact ⟨p, hp, ha, hg, hn, hv, vs, hvs, hau, hne⟩

/-- a package forced to audit-as-crates-io that crates.io does not know makes the unlocked run
refuse -/
theorem C08_refused_unknown (lock : List UnpubEntry) (pkgs : List FirstParty)
    (p : FirstParty) (hp : p ∈ pkgs) (ha : p.auditAs = some true) (hg : p.isGit = false)
    (hu : p.published = none ∨ p.published = some []) :
    ∃ n, importUnpublished lock pkgs = .refused n := importUnpublished_refused hp ha hg hu lock

/-- the consistency check passes exactly when every `audit-as-crates-io` entry matches a
first-party package, every first-party package whose crates.io namesake has matching metadata
has an explicit choice, and nothing claims `true` without such a match -/
theorem C08_checks (pe : List (Nat × Option Nat)) (pkgs : List FirstParty) :
    checkAuditAs pe pkgs = [] ↔
      (∀ e ∈ pe, ∃ p ∈ pkgs, p.name = e.1 ∧ (e.2 = none ∨ e.2 = some p.ver)) ∧
      (∀ p ∈ pkgs, p.auditAs ≠ some false →
        ((p.published.isSome && p.metaMatch) = true → p.auditAs ≠ none) ∧
        ((p.published.isSome && p.metaMatch) = false → p.auditAs ≠ some true)) := checkAuditAs_nil pe pkgs

/-- stale unpublished links survive every update that does not prune exemptions -/
theorem C08_stale_unpublished_kept (w : World) (modeOf : Nat → UpdateMode) (u : Updates)
    (h : getStoreUpdates w modeOf = .ok u) (n : Nat) (hp : (modeOf n).pruneExemptions = false)
    (kept : List Nat) (l : List Unpub) (hk : (n, kept) ∈ u.unpublished) (hl : (n, l) ∈ w.store.unpublished)
    (hnd : (w.store.unpublished.map (·.1)).Nodup)
    (i : Nat) (e : Unpub) (hi : l[i]? = some e) (hf : e.fresh = false) : i ∈ kept := by
  obtain ⟨dg, m, reqs, required, ex0, _, _, _, _, _, rfl⟩ := getStoreUpdates_inv h
  obtain ⟨l', hl', rfl⟩ := (keepTable_spec w.store.unpublished (unpubPred modeOf required)).2 n kept hk
  rw [← mem_unique_of_nodup hnd hl hl']
  refine (mem_keepIdx l _ i).2 ⟨e, hi, ?_⟩
  simp only [unpubPred, hp, hf, Bool.not_false, Bool.and_self, if_true]

/-- C01 for exactly the package's own version: a git revision is a different version from the
plain one (versions are compared as a whole), so audits of the plain version do not certify it -/
theorem C08_exact_version (w : World) (r : Report) (h : resolve w = .ok r)
    (a b f : List Nat) (hs : r.conclusion = .success a b f)
    (i : Nat) (p : PkgNode) (hp : r.graph.nodes[i]? = some p) (htp : p.thirdParty = true)
    (c : Nat) (hc : r.required i c) :
    ∃ path, CertPath w.store r.mapper p.name c none path (some p.ver) := C01_sound w r h a b f hs i p hp htp c hc

end Vet
