/-
Declarative reading of the path search: the steps a search may take and walks made of them.
A walk carries the list of origins it uses and the greatest caveat level on it.
-/
import Vet.Model.Search
namespace Vet

/-- one step from `a`: a stored edge that passes the criterion filter, or (when regenerating
exemptions) the pseudo-edge from a version straight to the root. -/
inductive Step (adj : Option Nat → List Edge) (mode : Mode) (c : Nat) :
    Option Nat → Origin → Nat → Option Nat → Prop
  | edge {a : Option Nat} {e : Edge} : e ∈ adj a → usable mode c e = true →
      Step adj mode c a e.origin (edgeCaveat mode e) e.dst
  | fresh {v : Nat} : mode = .regenerateExemptions →
      Step adj mode c (some v) (.freshExemption v) 8 none

/-- `Walk adj mode c a p l b`: following the origins `p` from `a` ends in `b`; `l` is the
maximum caveat level met (0 for the empty walk). -/
inductive Walk (adj : Option Nat → List Edge) (mode : Mode) (c : Nat) :
    Option Nat → List Origin → Nat → Option Nat → Prop
  | nil (a : Option Nat) : Walk adj mode c a [] 0 a
  | snoc {a b d : Option Nat} {p : List Origin} {l k : Nat} {o : Origin} :
      Walk adj mode c a p l b → Step adj mode c b o k d → Walk adj mode c a (p ++ [o]) (max l k) d

/-- the initial queue of `search_for_path` -/
def initQueue (src : Option Nat) : List QNode := [{ ver := src, originVer := src, path := [], caveat := 0 }]

end Vet
