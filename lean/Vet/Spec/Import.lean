/-
Declarative reading of C07: what a peer entry may contribute to a local criterion.
-/
import Vet.Model.Imports
namespace Vet

/-- the local set a single foreign criterion `f` stands for under the criteria-map:
mapped criteria mean the closure of their targets; an unmapped built-in means itself;
anything else means nothing.  (`none` when a criteria-map target is undefined locally.) -/
def mapF (lm : Mapper) (cmap : List (Nat × List Nat)) (f : Nat) : Except Panic CSet :=
  match assoc? f cmap with
  | some l => lm.fromList l
  | none => if f = 1 then lm.fromList [1] else if f = 0 then lm.fromList [0] else .ok 0

/-- `c` is justified for a foreign criteria list `L` of a source with (sanitised) mapper `fm`:
some foreign criterion in the peer-closure of `L` is mapped to a set containing `c`. -/
def Justified (lm fm : Mapper) (cmap : List (Nat × List Nat)) (L : List Nat) (c : Nat) : Prop :=
  ∃ fs f s, fm.fromList L = .ok fs ∧ f < fm.n ∧ fs.testBit f = true ∧
    mapF lm cmap f = .ok s ∧ s.testBit c = true

end Vet
