/-
Record-level specification of C01/C02/C04/C06: which records certify which step, read
straight off the store (not off the audit graph the implementation builds).
-/
import Vet.Model.AuditGraph
namespace Vet

/-- `CertEdge s m name c a o b`: the record identified by origin `o` certifies the step
from `a` to `b` for criterion `c` of crate `name`.  One constructor per record kind. -/
inductive CertEdge (s : Store) (m : Mapper) (name : Nat) (c : Nat) :
    Option Nat → Origin → Option Nat → Prop
  | full {imp : Option Nat} {idx : Nat} {a : Audit} {v : Nat} {cs : CSet} :
      (imp, idx, a) ∈ allAudits s name → a.kind = .full v →
      m.fromList a.criteria = .ok cs → cs.testBit c = true →
      CertEdge s m name c none (auditOrigin imp idx a) (some v)
  | delta {imp : Option Nat} {idx : Nat} {a : Audit} {f t : Nat} {cs : CSet} :
      (imp, idx, a) ∈ allAudits s name → a.kind = .delta f t →
      m.fromList a.criteria = .ok cs → cs.testBit c = true →
      CertEdge s m name c (some f) (auditOrigin imp idx a) (some t)
  | wildcard {imp : Option Nat} {idx pi : Nat} {w : Wildcard} {p : Publisher} {cs : CSet} :
      (imp, idx, w) ∈ allWildcards s name → (p, pi) ∈ (getL name s.publishers).zipIdx →
      grantApplies w.user w.start w.stop p = true →
      m.fromList w.criteria = .ok cs → cs.testBit c = true →
      CertEdge s m name c none (.wildcard imp idx pi) (some p.version)
  | trusted {pi : Nat} {t : Trusted} {p : Publisher} {cs : CSet} :
      t ∈ getL name s.trusted → (p, pi) ∈ (getL name s.publishers).zipIdx →
      grantApplies t.user t.start t.stop p = true →
      m.fromList t.criteria = .ok cs → cs.testBit c = true →
      CertEdge s m name c none (.trusted pi) (some p.version)
  | unpublished {i : Nat} {u : Unpub} :
      (u, i) ∈ (getL name s.unpublished).zipIdx → c < m.n →
      CertEdge s m name c (some u.auditedAs) (.unpublished i) (some u.version)
  | exemption {i : Nat} {x : Exemption} {cs : CSet} :
      (x, i) ∈ (getL name s.exemptions).zipIdx →
      m.fromList x.criteria = .ok cs → cs.testBit c = true →
      CertEdge s m name c none (.exemption i) (some x.version)

/-- a chain of certifying records from `a` to `b`, listing the origins used in order -/
inductive CertPath (s : Store) (m : Mapper) (name : Nat) (c : Nat) :
    Option Nat → List Origin → Option Nat → Prop
  | nil (a : Option Nat) : CertPath s m name c a [] a
  | cons {a b d : Option Nat} {o : Origin} {p : List Origin} :
      CertEdge s m name c a o b → CertPath s m name c b p d → CertPath s m name c a (o :: p) d

/-- C01's chain: from "nothing" to exactly version `v` -/
def CertChain (s : Store) (m : Mapper) (name c v : Nat) : Prop :=
  ∃ p, CertPath s m name c none p (some v)

def Origin.isAuditOrExemption : Origin → Bool
  | .storedLocal _ _ => true
  | .imported _ _ => true
  | .exemption _ => true
  | _ => false

end Vet
