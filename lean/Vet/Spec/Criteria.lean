/-
Declarative reading of C05: the implication relation of a criteria table and its
reflexive-transitive closure.
-/
import Vet.Model.Criteria
namespace Vet

/-- `i` directly implies `j`: the built-in `safe-to-deploy → safe-to-run`, or `j` is listed
in the `implies` of custom criterion `i` (customs start at index 2). -/
def Table.direct (t : Table) (i j : Nat) : Prop :=
  (i = 1 ∧ j = 0) ∨ (2 ≤ i ∧ ∃ c, t[i - 2]? = some c ∧ j ∈ c.implies)

/-- reflexive-transitive closure of `direct` -/
inductive Table.Implies (t : Table) : Nat → Nat → Prop
  | refl (i : Nat) : Table.Implies t i i
  | step {i k j : Nat} : t.direct i k → Table.Implies t k j → Table.Implies t i j

/-- membership in a criteria set -/
abbrev CSet.mem (s : CSet) (i : Nat) : Prop := s.testBit i = true

/-- a set is closed under implication -/
def Table.Closed (t : Table) (s : CSet) : Prop :=
  ∀ i j, s.testBit i = true → t.Implies i j → s.testBit j = true

end Vet
