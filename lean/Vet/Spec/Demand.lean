/-
Declarative reading of C03: the demand placed on each package is the solution of the
documented rule system over the dependency graph.
-/
import Vet.Model.Graph
namespace Vet

def defaultNode : PkgNode := ⟨0, 0, false, [], [], [], false, false, false⟩

def DepGraph.node (g : DepGraph) (i : Nat) : PkgNode := g.nodes.getD i defaultNode

/-- closure of a list of criteria names (empty when the list names an undefined criterion;
the theorems below assume the implementation did not panic, so that case does not arise) -/
def Mapper.cl (m : Mapper) (l : List Nat) : CSet :=
  match m.fromList l with
  | .ok s => s
  | .error _ => 0

def orAll (l : List CSet) : CSet := l.foldl (· ||| ·) 0

/-- what package `q` (with policy entry `pe`) demands of its dependency `d`: the
`dependency-criteria` entry for that dependency's name if present, else `dflt` -/
def edgeDemand (g : DepGraph) (m : Mapper) (pe : Option PolicyEntry) (d : Nat) (dflt : CSet) : CSet :=
  match pe.bind (fun p => assoc? (g.node d).name p.depCriteria) with
  | some l => m.cl l
  | none => dflt

def DepGraph.policyOf (g : DepGraph) (pol : Policy) (i : Nat) : Option PolicyEntry :=
  pol.get (g.node i).name (g.node i).ver

/-- `dev-criteria` of a workspace member, default safe-to-run (index 0) -/
def devDemand (g : DepGraph) (pol : Policy) (m : Mapper) (q : Nat) : CSet :=
  match (g.policyOf pol q).bind (·.devCriteria) with
  | some l => m.cl l
  | none => m.cl [0]

/-- The right-hand side of the rule system for package `p`, given the demands `D` of the
other packages:
* a package's own policy `criteria` replace whatever was demanded of it;
* otherwise: safe-to-deploy (index 1) if it is a root, united with what every package that has
  it as a normal/build dependency passes on (its own demand, or the dependency-criteria entry),
  united with what every workspace member having it as a dev-dependency demands. -/
def ruleRhs (g : DepGraph) (pol : Policy) (m : Mapper) (D : Nat → CSet) (p : Nat) : CSet :=
  match (g.policyOf pol p).bind (·.criteria) with
  | some c => m.cl c
  | none =>
    (if (g.node p).isRoot then m.cl [1] else 0)
    ||| orAll ((g.topo.filter (fun q => (g.node q).normalBuildDeps.contains p)).map
          (fun q => edgeDemand g m (g.policyOf pol q) p (D q)))
    ||| orAll (((List.range g.nodes.length).filter (fun q => (g.node q).devDeps.contains p)).map
          (fun q => edgeDemand g m (g.policyOf pol q) p (devDemand g pol m q)))

/-- `topo` is a valid children-first order of the packages reachable from the workspace. -/
structure ValidTopo (g : DepGraph) : Prop where
  nodup : g.topo.Nodup
  bound : ∀ i ∈ g.topo, i < g.nodes.length
  /-- every normal/build dependency of a listed package is listed *before* it -/
  order : ∀ pre i post, g.topo = pre ++ i :: post → ∀ d ∈ (g.node i).normalBuildDeps, d ∈ pre
  /-- dev-dependencies (only workspace members have them) are listed -/
  dev : ∀ i, i < g.nodes.length → ∀ d ∈ (g.node i).devDeps, d ∈ g.topo
  /-- only listed packages have dev-dependencies recorded -/
  devOwner : ∀ i, i < g.nodes.length → (g.node i).devDeps ≠ [] → i ∈ g.topo

/-- `D` solves the rule system on the listed packages -/
def IsDemand (g : DepGraph) (pol : Policy) (m : Mapper) (D : Nat → CSet) : Prop :=
  ∀ p ∈ g.topo, D p = ruleRhs g pol m D p

/-- subset on bitmask sets -/
def CSet.sub (a b : CSet) : Prop := ∀ i, a.testBit i = true → b.testBit i = true

/-- raw normal/build edges of the metadata are acyclic (there is a rank decreasing along them) -/
def Meta.AcyclicNB (md : Meta) : Prop :=
  ∃ rank : Nat → Nat, ∀ i p, md.pkgs[i]? = some p → ∀ d ∈ p.deps, d.2 &&& 3 ≠ 0 → rank d.1 < rank i

/-- indices in the metadata are in range and package keys are pairwise distinct -/
structure Meta.WF (md : Meta) : Prop where
  deps : ∀ p ∈ md.pkgs, ∀ d ∈ p.deps, d.1 < md.pkgs.length
  members : ∀ i ∈ md.members, i < md.pkgs.length

end Vet
