/-
Model of `AuditGraph::build` (src/resolver.rs:1054-1406).

The two adjacency maps are represented by one list of edge triples in push order;
`forward[v]` is the sublist with source `v`, `backward[v]` the sublist with target `v`
(with source and target swapped) — exactly what the sequence of `entry(..).or_default().push(..)`
calls builds.  `extra_audits_file` (registry suggestions) is not modelled.
-/
import Vet.Model.Store
namespace Vet

inductive Origin
  | storedLocal (idx : Nat) (importable : Bool)
  | imported (imp idx : Nat)
  | wildcard (imp : Option Nat) (idx pub : Nat)
  | trusted (pub : Nat)
  | exemption (idx : Nat)
  | unpublished (idx : Nat)
  | freshExemption (v : Nat)
deriving Repr, DecidableEq

/-- `DeltaEdgeFreshness`: 0 = Stale, 1 = FreshPublisher, 2 = Fresh -/
def freshness (freshAudit freshPublisher : Bool) : Nat :=
  if freshAudit then 2 else if freshPublisher then 1 else 0

structure Triple where
  src : Option Nat
  dst : Option Nat
  crit : CSet
  origin : Origin
  fresh : Nat
deriving Repr, DecidableEq

/-- what a `DeltaEdge` stores (the other endpoint is the map key) -/
structure Edge where
  dst : Option Nat
  crit : CSet
  origin : Origin
  fresh : Nat
deriving Repr, DecidableEq

structure Graph where
  edges : List Triple
deriving Repr, DecidableEq

def Graph.forward (g : Graph) (v : Option Nat) : List Edge :=
  (g.edges.filter (fun t => t.src == v)).map (fun t => ⟨t.dst, t.crit, t.origin, t.fresh⟩)

def Graph.backward (g : Graph) (v : Option Nat) : List Edge :=
  (g.edges.filter (fun t => t.dst == v)).map (fun t => ⟨t.src, t.crit, t.origin, t.fresh⟩)

/-- a reported conflict, by content -/
inductive Conflict
  | exemption (vsrc : Option Nat) (viol : Audit) (ex : Exemption)
  | audit (vsrc : Option Nat) (viol : Audit) (asrc : Option Nat) (a : Audit)
deriving Repr, DecidableEq

inductive BuildResult
  | graph (g : Graph)
  | conflicts (cs : List Conflict)
deriving Repr, DecidableEq

/-- `(import index?, audit index, entry)` for every audit of `name`, imports first, then local -/
def allAudits (s : Store) (name : Nat) : List (Option Nat × Nat × Audit) :=
  (s.imports.zipIdx.flatMap (fun (f, i) => (getL name f.audits).zipIdx.map (fun (a, j) => (some i, j, a))))
  ++ (getL name s.locals.audits).zipIdx.map (fun (a, j) => (none, j, a))

def allWildcards (s : Store) (name : Nat) : List (Option Nat × Nat × Wildcard) :=
  (s.imports.zipIdx.flatMap (fun (f, i) => (getL name f.wildcards).zipIdx.map (fun (a, j) => (some i, j, a))))
  ++ (getL name s.locals.wildcards).zipIdx.map (fun (a, j) => (none, j, a))

def auditOrigin (imp : Option Nat) (idx : Nat) (a : Audit) : Origin :=
  match imp with
  | some i => .imported i idx
  | none => .storedLocal idx a.importable

/-- loop 1: full and delta audits -/
def auditEdges (m : Mapper) : List (Option Nat × Nat × Audit) → Except Panic (List Triple)
  | [] => .ok []
  | (imp, idx, a) :: rest =>
    match a.kind with
    | .violation _ => auditEdges m rest
    | .full v =>
      match m.fromList a.criteria with
      | .error e => .error e
      | .ok c =>
        match auditEdges m rest with
        | .error e => .error e
        | .ok ts => .ok (⟨none, some v, c, auditOrigin imp idx a, freshness a.fresh false⟩ :: ts)
    | .delta f t =>
      match m.fromList a.criteria with
      | .error e => .error e
      | .ok c =>
        match auditEdges m rest with
        | .error e => .error e
        | .ok ts => .ok (⟨some f, some t, c, auditOrigin imp idx a, freshness a.fresh false⟩ :: ts)

/-- the publisher-window guard shared by wildcard audits and trusted entries -/
def grantApplies (user start stop : Nat) (p : Publisher) : Bool :=
  user == p.user && decide (start ≤ p.day) && decide (p.day < stop)

def wildcardEdges (m : Mapper) (pi : Nat) (p : Publisher) :
    List (Option Nat × Nat × Wildcard) → Except Panic (List Triple)
  | [] => .ok []
  | (imp, idx, w) :: rest =>
    if grantApplies w.user w.start w.stop p then
      match m.fromList w.criteria with
      | .error e => .error e
      | .ok c =>
        match wildcardEdges m pi p rest with
        | .error e => .error e
        | .ok ts => .ok (⟨none, some p.version, c, .wildcard imp idx pi, freshness w.fresh p.fresh⟩ :: ts)
    else wildcardEdges m pi p rest

def trustedEdges (m : Mapper) (pi : Nat) (p : Publisher) : List Trusted → Except Panic (List Triple)
  | [] => .ok []
  | t :: rest =>
    if grantApplies t.user t.start t.stop p then
      match m.fromList t.criteria with
      | .error e => .error e
      | .ok c =>
        match trustedEdges m pi p rest with
        | .error e => .error e
        | .ok ts => .ok (⟨none, some p.version, c, .trusted pi, freshness p.fresh false⟩ :: ts)
    else trustedEdges m pi p rest

/-- loop 2: per publisher, wildcard audits then trusted entries -/
def publisherEdges (m : Mapper) (ws : List (Option Nat × Nat × Wildcard)) (tr : List Trusted) :
    List (Publisher × Nat) → Except Panic (List Triple)
  | [] => .ok []
  | (p, pi) :: rest =>
    match wildcardEdges m pi p ws with
    | .error e => .error e
    | .ok a =>
      match trustedEdges m pi p tr with
      | .error e => .error e
      | .ok b =>
        match publisherEdges m ws tr rest with
        | .error e => .error e
        | .ok c => .ok (a ++ b ++ c)

/-- loop 3: unpublished links carry every criterion -/
def unpubEdges (m : Mapper) (us : List (Unpub × Nat)) : List Triple :=
  us.map (fun (u, i) => ⟨some u.auditedAs, some u.version, m.all, .unpublished i, freshness u.fresh false⟩)

/-- loop 4: exemptions -/
def exemptionEdges (m : Mapper) : List (Exemption × Nat) → Except Panic (List Triple)
  | [] => .ok []
  | (x, i) :: rest =>
    match m.fromList x.criteria with
    | .error e => .error e
    | .ok c =>
      match exemptionEdges m rest with
      | .error e => .error e
      | .ok ts => .ok (⟨none, some x.version, c, .exemption i, 0⟩ :: ts)

/-- one closure per *listed* violation criterion -/
def violationSets (m : Mapper) : List Nat → Except Panic (List CSet)
  | [] => .ok []
  | c :: rest =>
    match m.fromList [c] with
    | .error e => .error e
    | .ok s =>
      match violationSets m rest with
      | .error e => .error e
      | .ok ss => .ok (s :: ss)

def hits (vs : List CSet) (auditCrit : CSet) : Bool := vs.any (fun v => CSet.containsSet auditCrit v)

def exemptionConflicts (m : Mapper) (vsrc : Option Nat) (viol : Audit) (matched : List Nat)
    (vs : List CSet) : List Exemption → Except Panic (List Conflict)
  | [] => .ok []
  | x :: rest =>
    match m.fromList x.criteria with
    | .error e => .error e
    | .ok c =>
      match exemptionConflicts m vsrc viol matched vs rest with
      | .error e => .error e
      | .ok cs =>
        if hits vs c && matched.contains x.version then .ok (.exemption vsrc viol x :: cs) else .ok cs

def touches (matched : List Nat) : AuditKind → Bool
  | .full v => matched.contains v
  | .delta f t => matched.contains f || matched.contains t
  | .violation _ => false

def auditConflicts (m : Mapper) (vsrc : Option Nat) (viol : Audit) (matched : List Nat)
    (vs : List CSet) : List (Option Nat × Nat × Audit) → Except Panic (List Conflict)
  | [] => .ok []
  | (imp, _, a) :: rest =>
    match m.fromList a.criteria with
    | .error e => .error e
    | .ok c =>
      match auditConflicts m vsrc viol matched vs rest with
      | .error e => .error e
      | .ok cs =>
        if hits vs c && touches matched a.kind then .ok (.audit vsrc viol imp a :: cs) else .ok cs

def violationConflicts (m : Mapper) (exs : List Exemption) (audits : List (Option Nat × Nat × Audit)) :
    List (Option Nat × Nat × Audit) → Except Panic (List Conflict)
  | [] => .ok []
  | (vsrc, _, viol) :: rest =>
    match viol.kind with
    | .violation matched =>
      match violationSets m viol.criteria with
      | .error e => .error e
      | .ok vs =>
        match exemptionConflicts m vsrc viol matched vs exs with
        | .error e => .error e
        | .ok c1 =>
          match auditConflicts m vsrc viol matched vs audits with
          | .error e => .error e
          | .ok c2 =>
            match violationConflicts m exs audits rest with
            | .error e => .error e
            | .ok c3 => .ok (c1 ++ c2 ++ c3)
    | _ => violationConflicts m exs audits rest

/-- `AuditGraph::build(store, mapper, name, None)` -/
def build (s : Store) (m : Mapper) (name : Nat) : Except Panic BuildResult :=
  let audits := allAudits s name
  let exs := getL name s.exemptions
  match auditEdges m audits with
  | .error e => .error e
  | .ok e1 =>
    match publisherEdges m (allWildcards s name) (getL name s.trusted) (getL name s.publishers).zipIdx with
    | .error e => .error e
    | .ok e2 =>
      let e3 := unpubEdges m (getL name s.unpublished).zipIdx
      match exemptionEdges m exs.zipIdx with
      | .error e => .error e
      | .ok e4 =>
        match violationConflicts m exs audits audits with
        | .error e => .error e
        | .ok [] => .ok (.graph ⟨e1 ++ e2 ++ e3 ++ e4⟩)
        | .ok cs => .ok (.conflicts cs)

end Vet
