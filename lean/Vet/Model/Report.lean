/-
The failure report as rendered (src/resolver.rs: `print_json` 2100-2199, `FailForVet::print_human`
2409-2443, `has_errors` 1669-1672; exit status src/main.rs:2221-2225).  Names and versions are
ranks; a criteria list is the list of indices whose names are printed.
-/
import Vet.Model.Resolve
namespace Vet

/-- one entry of the JSON `failures` array / one `name:version missing [...]` line -/
structure FailLine where
  name : Nat
  ver : Nat
  missing : List Nat
deriving Repr, DecidableEq

/-- the `failures` array of the JSON report, in report order; the missing criteria are
`criteria_names(criteria_failures)` -/
def Report.jsonFailures (r : Report) : List FailLine :=
  match r.conclusion with
  | .failVet fs =>
    fs.filterMap (fun (i, s) => (r.graph.nodes[i]?).map (fun p => ⟨p.name, p.ver, r.mapper.minimal s⟩))
  | _ => []

/-- stable insertion by a `Nat` key (`sort_by_key` is stable) -/
def insertByKey {α : Type} (key : α → Nat) (x : α) : List α → List α
  | [] => [x]
  | y :: ys => if key x ≤ key y then x :: y :: ys else y :: insertByKey key x ys

def sortByKey {α : Type} (key : α → Nat) (l : List α) : List α :=
  l.foldr (fun x acc => insertByKey key x acc) []

/-- the `missing` lines of the human report: sorted by version, then (stably) by name -/
def Report.humanFailures (r : Report) : List FailLine :=
  sortByKey (·.name) (sortByKey (·.ver) r.jsonFailures)

/-- `has_errors` -/
def Report.hasErrors (r : Report) : Bool :=
  match r.conclusion with
  | .success _ _ _ => false
  | _ => true

/-- exit status of `cargo vet`: `ExitPanic(-1)` exactly when the report has errors -/
def Report.exitCode (r : Report) : Int := if r.hasErrors then -1 else 0

end Vet
