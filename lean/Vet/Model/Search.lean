/-
Model of `search_for_path` and `AuditGraph::search` (src/resolver.rs:1412-1666).

The `BinaryHeap` is a list; `popBest` removes the element with the greatest heap key, i.e.
the least tuple `(caveat, version, exemption_origin_version, path.len(), path.last())`.
On every reachable queue two elements with equal key are equal as values (see DESIGN §3.1),
so which of them a heap returns is immaterial.
-/
import Vet.Model.AuditGraph
namespace Vet

inductive Mode
  | preferExemptions
  | preferFreshImports
  | regenerateExemptions
deriving Repr, DecidableEq

/- `CaveatLevel` as its discriminant:
 0 None, 1 NonImportableAudit, 2 PreferredExemption, 3 PreferredUnpublished, 4 FreshPublisher,
 5 FreshImport, 6 Exemption, 7 Unpublished, 8 FreshExemption -/

def Origin.isExemption : Origin → Bool
  | .exemption _ => true
  | _ => false

/-- the `match &edge.origin` at resolver.rs:1608-1633 -/
def edgeCaveat (mode : Mode) (e : Edge) : Nat :=
  match e.origin with
  | .storedLocal _ false => 1
  | .exemption _ => if mode = .preferExemptions then 2 else 6
  | .unpublished _ =>
    if mode = .preferExemptions then (if e.fresh = 0 then 3 else 7)
    else (if e.fresh ≠ 0 then 3 else 7)
  | _ => if e.fresh = 0 then 0 else if e.fresh = 1 then 4 else 5

/-- the criterion filter at resolver.rs:1596-1601 -/
def usable (mode : Mode) (c : Nat) (e : Edge) : Bool :=
  (mode == .regenerateExemptions && e.origin.isExemption) || e.crit.testBit c

structure QNode where
  ver : Option Nat
  originVer : Option Nat
  path : List Origin
  caveat : Nat
deriving Repr, DecidableEq

def optKey : Option Nat → Nat
  | none => 0
  | some v => v + 1

/-- derived `Ord` on `DeltaEdgeOrigin`: discriminant, then fields in order -/
def Origin.key : Origin → List Nat
  | .storedLocal i imp => [0, i, if imp then 1 else 0]
  | .imported i j => [1, i, j]
  | .wildcard imp i p => [2, optKey imp, i, p]
  | .trusted p => [3, p]
  | .exemption i => [4, i]
  | .unpublished i => [5, i]
  | .freshExemption v => [6, v]

def lexLt : List Nat → List Nat → Bool
  | [], [] => false
  | [], _ :: _ => true
  | _ :: _, [] => false
  | a :: as, b :: bs => a < b || (a == b && lexLt as bs)

def QNode.exemptionOriginVer (n : QNode) : Option Nat :=
  if n.caveat = 2 || n.caveat = 6 || n.caveat = 8 then n.originVer else none

/-- the tuple inside `Reverse(..)`, caveat level excluded -/
def QNode.restKey (n : QNode) : List Nat :=
  [optKey n.ver, optKey n.exemptionOriginVer, n.path.length] ++
    (match n.path.getLast? with | none => [] | some o => 1 :: o.key)

/-- `a` is popped before `b` -/
def QNode.before (a b : QNode) : Bool :=
  a.caveat < b.caveat || (a.caveat == b.caveat && lexLt a.restKey b.restKey)

/-- index-free `BinaryHeap::pop`: the best element and the remaining ones -/
def popBest : List QNode → Option (QNode × List QNode)
  | [] => none
  | x :: xs =>
    match popBest xs with
    | none => some (x, [])
    | some (m, rest) => if m.before x then some (m, x :: rest) else some (x, xs)

inductive SearchResult
  | found (path : List Origin)
  | notFound (visited : List (Option Nat))
  | outOfFuel
deriving Repr, DecidableEq

/-- nodes pushed while expanding `n` -/
def expand (adj : Option Nat → List Edge) (c : Nat) (mode : Mode) (visited : List (Option Nat))
    (n : QNode) : List QNode :=
  ((adj n.ver).filter (fun e => usable mode c e && !visited.contains e.dst)).map
      (fun e => { ver := e.dst, originVer := n.ver, path := n.path ++ [e.origin],
                  caveat := max n.caveat (edgeCaveat mode e) })
  ++ (if mode = .regenerateExemptions then
        match n.ver with
        | some v => [{ ver := none, originVer := n.ver, path := n.path ++ [.freshExemption v],
                       caveat := max n.caveat 8 }]
        | none => []    -- `expect(..)` panic: unreachable, the target `None` returns before
      else [])

/-- the `while let Some(..) = queue.pop()` loop; `visited` includes the popped version when
its edges are filtered, as in the code (`visited.insert` happens first). -/
def searchLoop (adj : Option Nat → List Edge) (c : Nat) (target : Option Nat) (mode : Mode) :
    Nat → List QNode → List (Option Nat) → SearchResult
  | 0, _, _ => .outOfFuel
  | fuel + 1, queue, visited =>
    match popBest queue with
    | none => .notFound visited
    | some (n, rest) =>
      if visited.contains n.ver then searchLoop adj c target mode fuel rest visited
      else if n.ver = target then .found n.path
      else
        let visited' := n.ver :: visited
        searchLoop adj c target mode fuel (rest ++ expand adj c mode visited' n) visited'

/-- enough for every run: each iteration removes one queue element; at most one expansion
per distinct version, each adding at most `deg + 1` elements -/
def searchFuel (g : Graph) : Nat := 2 * g.edges.length + 2 * (g.edges.length + 2) + 4

def searchForPath (g : Graph) (backward : Bool) (c : Nat) (src target : Option Nat) (mode : Mode) :
    SearchResult :=
  searchLoop (if backward then g.backward else g.forward) c target mode (searchFuel g)
    [{ ver := src, originVer := src, path := [], caveat := 0 }] []

inductive SearchOutcome
  | ok (path : List Origin)
  | fail (fromRoot fromTarget : List (Option Nat))
  | panic (p : Panic)
deriving Repr, DecidableEq

/-- `AuditGraph::search`: backward from the target; on failure forward from the root for the
second reachable set.  The `assert!`s become panics. -/
def search (g : Graph) (c : Nat) (v : Nat) (mode : Mode) : SearchOutcome :=
  match searchForPath g true c (some v) none mode with
  | .found p => .ok p
  | .outOfFuel => .panic .outOfFuel
  | .notFound fromTarget =>
    if mode = .regenerateExemptions then .panic .other
    else match searchForPath g false c none (some v) mode with
      | .notFound fromRoot => .fail fromRoot fromTarget
      | .found _ => .panic .other           -- `unwrap_err()` on `Ok`
      | .outOfFuel => .panic .outOfFuel

end Vet
