/-
Well-formedness of a store as it arrives from cargo-vet's sorted maps: every table's keys are
strictly increasing (BTreeMap iteration order under the order-preserving interning).  The
driver refuses a `world` that is not well-formed, so that the correspondence run shows that every
store the real code holds encodes to a well-formed world; the theorems that need unique or sorted
keys (`Nodup`, `Pairwise (· < ·)`) get their hypothesis from `Store.wf`.
-/
import Vet.Model.Resolve
namespace Vet

/-- strictly increasing keys -/
def sortedKeys {β : Type} : List (Nat × β) → Bool
  | [] => true
  | [_] => true
  | (a, _) :: (b, y) :: rest => decide (a < b) && sortedKeys ((b, y) :: rest)

def Store.wf (s : Store) : Bool :=
  s.imports.all (fun f => sortedKeys f.audits && sortedKeys f.wildcards) &&
  sortedKeys s.locals.audits && sortedKeys s.locals.wildcards && sortedKeys s.trusted &&
  sortedKeys s.publishers && sortedKeys s.unpublished && sortedKeys s.exemptions &&
  sortedKeys s.policy

end Vet
