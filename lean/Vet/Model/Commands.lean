/-
Command wiring (src/main.rs call sites of `update_store` / `get_store_updates`): which
`UpdateMode` every store-rewriting command hands to the updater for which crate name, and what
the entry-adding commands push into the store before the clean-up runs.

  init                  main.rs:544   (regenerate, everything pruned)
  certify <pkg>         main.rs:1072  (prune mode for <pkg> only, imports never pruned; check mode elsewhere)
  import                main.rs:1325  (prune mode, everything pruned)
  trust <pkg>           main.rs:1584  (as certify)
  regenerate imports    main.rs:1778  (prune mode, everything pruned)
  regenerate unpublished main.rs:1838 (check mode)
  regenerate exemptions main.rs:2038  (regenerate, everything pruned)
  check                 main.rs:2239  (check mode; the advice compares with prune mode)
  prune [flags]         main.rs:2416  (flags switch the three pruning passes and the search mode)
-/
import Vet.Model.Apply
import Vet.Model.Report
namespace Vet

inductive Cmd
  | check
  | prune (noExemptions noAudits noImports : Bool)
  | regenerateImports
  | regenerateExemptions
  | regenerateUnpublished
  | init
  | importPeer
  | certify (pkg : Nat)
  | trust (pkg : Nat)
deriving Repr, DecidableEq

def checkMode : UpdateMode := ⟨.preferExemptions, false, false, false⟩
def pruneMode : UpdateMode := ⟨.preferFreshImports, true, true, true⟩
def regenMode : UpdateMode := ⟨.regenerateExemptions, true, true, true⟩
/-- the clean-up for the crate a `certify` / `trust` was about -/
def cleanupMode : UpdateMode := ⟨.preferFreshImports, true, true, false⟩

/-- the mode closure each command passes to `update_store` -/
def Cmd.modeOf : Cmd → Nat → UpdateMode
  | .check, _ => checkMode
  | .prune noEx noAud noImp, _ =>
    ⟨if noEx then .preferExemptions else .preferFreshImports, !noEx, !noAud, !noImp⟩
  | .regenerateImports, _ => pruneMode
  | .regenerateExemptions, _ => regenMode
  | .regenerateUnpublished, _ => checkMode
  | .init, _ => regenMode
  | .importPeer, _ => pruneMode
  | .certify pkg, n => if n = pkg then cleanupMode else checkMode
  | .trust pkg, n => if n = pkg then cleanupMode else checkMode

/-- commands that may synthesise exemptions -/
def Cmd.regenerates : Cmd → Bool
  | .regenerateExemptions => true
  | .init => true
  | _ => false

/-- `get_store_updates` as wired for the command -/
def Cmd.update (c : Cmd) (w : World) : Except Panic Updates := getStoreUpdates w c.modeOf

/-- What a command leaves for the next `--locked` run, given the store as loaded (live view):
`none` = it exits non-zero and writes nothing.  `check` commits only when the report has no
errors (main.rs:2221-2294); the other commands always update and commit. -/
def Cmd.run (c : Cmd) (w : World) : Except Panic (Option World) :=
  match c with
  | .check =>
    match resolve w with
    | .error e => .error e
    | .ok r =>
      if r.hasErrors then .ok none
      else match c.update w with
        | .error e => .error e
        | .ok u => .ok (some (w.applyLocked u))
  | _ =>
    match c.update w with
    | .error e => .error e
    | .ok u => .ok (some (w.applyLocked u))

/-! ### What the entry-adding commands push (before the clean-up) -/

/-- `table.entry(name).or_default().push(x)` on a name-sorted association list -/
def pushEntry {β : Type} (k : Nat) (x : β) : List (Nat × List β) → List (Nat × List β)
  | [] => [(k, [x])]
  | (k', l) :: rest =>
    if k' = k then (k', l ++ [x]) :: rest
    else if k < k' then (k, [x]) :: (k', l) :: rest
    else (k', l) :: pushEntry k x rest

inductive Ask
  | audit (name : Nat) (a : Audit)          -- certify (full / delta), record-violation
  | wildcard (name : Nat) (x : Wildcard)    -- certify --wildcard
  | trusted (name : Nat) (t : Trusted)      -- trust (no extendable entry present)
  | exemption (name : Nat) (x : Exemption)  -- add-exemption
deriving Repr, DecidableEq

def Store.ask (s : Store) : Ask → Store
  | .audit n a => { s with locals := { s.locals with audits := pushEntry n a s.locals.audits } }
  | .wildcard n x => { s with locals := { s.locals with wildcards := pushEntry n x s.locals.wildcards } }
  | .trusted n t => { s with trusted := pushEntry n t s.trusted }
  | .exemption n x => { s with exemptions := pushEntry n x s.exemptions }

def World.ask (w : World) (a : Ask) : World := { w with store := w.store.ask a }

end Vet
