/-
Model of the store locking protocol (src/flock.rs; src/storage.rs:95-128, 196-238, 490-503):
any number of cargo-vet invocations on one store directory, interleaved arbitrarily.

Each invocation: open config.toml and take an exclusive `flock` on it (blocks while another
holds it); read config.toml, audits.toml, imports.lock; then either drop the store (reader)
or commit: truncate audits.toml, truncate config.toml, truncate imports.lock, fill audits,
fill config, fill imports (`Store::commit`), and only then drop the lock.  Writes are not
atomic: between truncate and fill a file is `torn`.

A file's content is the log of writers that have written it (a writer writes what it read
with its own id appended), which makes lost updates visible.
-/
namespace Vet.Lock

inductive Content
  | full (log : List Nat)
  | torn
deriving Repr, DecidableEq

structure Files where
  cfg : Content
  audits : Content
  imports : Content
deriving Repr, DecidableEq

/-- program counter of one invocation:
0 not started · 1 locked, about to read config · 2 read audits · 3 read imports ·
4 loaded (think time; decides) · 5 truncated audits · 6 truncated config · 7 truncated imports ·
8 filled audits · 9 filled config · 10 filled imports (about to unlock) · 11 finished -/
structure Proc where
  pc : Nat
  writer : Bool
  gotCfg : Content
  gotAudits : Content
  gotImports : Content
deriving Repr, DecidableEq

structure State where
  files : Files
  holder : Option Nat
  procs : List Proc
  order : List Nat            -- pids in the order they acquired the lock
deriving Repr, DecidableEq

def newProc (writer : Bool) : Proc := ⟨0, writer, .torn, .torn, .torn⟩

def init (log : List Nat) (writers : List Bool) : State :=
  { files := ⟨.full log, .full log, .full log⟩, holder := none,
    procs := writers.map newProc, order := [] }

def setProc (s : State) (pid : Nat) (p : Proc) : State :=
  { s with procs := s.procs.zipIdx.map (fun (q, i) => if i = pid then p else q) }

/-- what a writer writes: what it read, with its id appended -/
def extend (c : Content) (pid : Nat) : Content :=
  match c with
  | .full log => .full (log ++ [pid])
  | .torn => .torn

/-- one step of invocation `pid`; `none` when it is blocked (lock held by another) or finished -/
def step (s : State) (pid : Nat) : Option State :=
  match s.procs[pid]? with
  | none => none
  | some p =>
    match p.pc with
    | 0 => if s.holder = none then
             some { setProc s pid { p with pc := 1 } with holder := some pid, order := s.order ++ [pid] }
           else none
    | 1 => some (setProc s pid { p with pc := 2, gotCfg := s.files.cfg })
    | 2 => some (setProc s pid { p with pc := 3, gotAudits := s.files.audits })
    | 3 => some (setProc s pid { p with pc := 4, gotImports := s.files.imports })
    | 4 => if p.writer then
             some { setProc s pid { p with pc := 5 } with files := { s.files with audits := .torn } }
           else some { setProc s pid { p with pc := 11 } with holder := none }
    | 5 => some { setProc s pid { p with pc := 6 } with files := { s.files with cfg := .torn } }
    | 6 => some { setProc s pid { p with pc := 7 } with files := { s.files with imports := .torn } }
    | 7 => some { setProc s pid { p with pc := 8 } with files := { s.files with audits := extend p.gotAudits pid } }
    | 8 => some { setProc s pid { p with pc := 9 } with files := { s.files with cfg := extend p.gotCfg pid } }
    | 9 => some { setProc s pid { p with pc := 10 } with files := { s.files with imports := extend p.gotImports pid } }
    | 10 => some { setProc s pid { p with pc := 11 } with holder := none }
    | _ => none

/-- run a schedule (a list of pids); disabled steps are stuttering -/
def run (s : State) : List Nat → State
  | [] => s
  | pid :: rest => run ((step s pid).getD s) rest

def Reachable (s : State) : Prop := ∃ log writers sched, s = run (init log writers) sched

def inCritical (p : Proc) : Bool := decide (1 ≤ p.pc) && decide (p.pc ≤ 10)

/-- writers that have finished, in the order they held the lock -/
def committed (s : State) : List Nat :=
  s.order.filter (fun pid => match s.procs[pid]? with
    | some p => p.writer && p.pc == 11
    | none => false)

end Vet.Lock
