/-
Model of `do_aggregate_audits` (src/main.rs:2488-2606), the routine behind `cargo vet aggregate`
and multi-URL imports.  Entries are abstracted to a content id plus the fields the routine
reads (`importable`) or writes (`aggregated-from`); criteria entries keep name, description,
description-url and implies (as ids).  The final `tidy()` (sorting) is not modelled: lists are
compared as sequences in source order.
-/
import Vet.Model.Graph
namespace Vet.Agg

structure Crit where
  name : Nat
  desc : Nat
  descUrl : Nat
  implies : List Nat
  from_ : List Nat            -- `aggregated-from` chain
deriving Repr, DecidableEq

structure Entry where
  content : Nat               -- identifies everything but provenance
  importable : Bool
  from_ : List Nat
deriving Repr, DecidableEq

structure Source where
  url : Nat
  criteria : List Crit
  audits : List (Nat × List Entry)
  wildcards : List (Nat × List Entry)
  trusted : List (Nat × List Entry)
deriving Repr, DecidableEq

structure Result where
  criteria : List Crit
  audits : List (Nat × List Entry)
  wildcards : List (Nat × List Entry)
  trusted : List (Nat × List Entry)
  errors : Nat                -- number of mismatch errors (description, implies)
deriving Repr, DecidableEq

def tag (url : Nat) (e : Entry) : Entry := { e with from_ := e.from_ ++ [url] }

/-- `aggregate.X.entry(pkg).or_default().extend(entries)` on a sorted association list -/
def extendKey (k : Nat) (v : List Entry) : List (Nat × List Entry) → List (Nat × List Entry)
  | [] => [(k, v)]
  | (k', v') :: rest =>
    if k < k' then (k, v) :: (k', v') :: rest
    else if k = k' then (k', v' ++ v) :: rest
    else (k', v') :: extendKey k v rest

def addCrit (url : Nat) (c : Crit) (acc : List Crit × Nat) : List Crit × Nat :=
  match acc.1.find? (fun x => x.name == c.name) with
  | none => (acc.1 ++ [{ c with from_ := c.from_ ++ [url] }], acc.2)
  | some old =>
    (acc.1, acc.2 + (if old.desc != c.desc || old.descUrl != c.descUrl then 1 else 0)
                  + (if old.implies != c.implies then 1 else 0))

def addSource (r : Result) (s : Source) : Result :=
  let (cs, errs) := s.criteria.foldl (fun acc c => addCrit s.url c acc) (r.criteria, r.errors)
  { criteria := cs, errors := errs,
    audits := s.audits.foldl (fun t (k, l) => extendKey k ((l.filter (·.importable)).map (tag s.url)) t) r.audits,
    wildcards := s.wildcards.foldl (fun t (k, l) => extendKey k (l.map (tag s.url)) t) r.wildcards,
    trusted := s.trusted.foldl (fun t (k, l) => extendKey k (l.map (tag s.url)) t) r.trusted }

/-- `do_aggregate_audits`: `none` when any mismatch was found (the command then fails without
output) -/
def aggregate (srcs : List Source) : Option Result :=
  let r := srcs.foldl addSource ⟨[], [], [], [], 0⟩
  if r.errors = 0 then some r else none

end Vet.Agg
