/-
Model of the hand-written (de)serialisers of cargo-vet (src/serialization.rs:43-392) at the
level of TOML *value trees*: `string_or_vec`, `string_or_vec_or_none`, the policy table keys
`name` / `name:version`, the flattened audit entry (`AuditEntryAll`), and `tidy`.
Strings are ids (`Nat`); whether a string contains the version separator `:` and how a version
prints/parses are inputs (the TOML text layer and semver are not modelled).
-/
namespace Vet.Serde

/-- a TOML value -/
inductive Val
  | str (s : Nat)
  | bool (b : Bool)
  | arr (items : List Val)
  | tbl (fields : List (Nat × Val))
deriving Repr

/-! ### string_or_vec -/

/-- `string_or_vec::serialize`: a single string is written bare, anything else as an array -/
def encStrOrVec : List Nat → Val
  | [s] => .str s
  | l => .arr (l.map .str)

def decStrs : List Val → Option (List Nat)
  | [] => some []
  | .str s :: rest => (decStrs rest).map (s :: ·)
  | _ :: _ => none

/-- `string_or_vec::deserialize`: a string or a list of strings -/
def decStrOrVec : Val → Option (List Nat)
  | .str s => some [s]
  | .arr items => decStrs items
  | _ => none

/-- `string_or_vec_or_none`: an absent field is `None`, a present one (even `[]`) is `Some` -/
def encOptStrOrVec : Option (List Nat) → Option Val
  | none => none
  | some l => some (encStrOrVec l)

def decOptStrOrVec : Option Val → Option (Option (List Nat))
  | none => some none
  | some v => (decStrOrVec v).map some

/-! ### audit entries (`AuditEntryAll`) -/

inductive Kind
  | full (version : Nat)
  | delta (from_ to : Nat)
  | violation (req : Nat)
deriving Repr, DecidableEq

structure AuditEntry where
  who : List Nat
  criteria : List Nat
  kind : Kind
  importable : Bool
  notes : Option Nat
  aggregatedFrom : List Nat
deriving Repr, DecidableEq

/-- the flattened form that is actually written: all three kind fields optional,
`importable` only written when false, empty `who` / `aggregated-from` skipped -/
structure AuditAll where
  who : Option Val
  criteria : Val
  version : Option Nat
  delta : Option (Nat × Nat)
  violation : Option Nat
  importable : Option Bool
  notes : Option Nat
  aggregatedFrom : Option Val
deriving Repr

def toAll (a : AuditEntry) : AuditAll :=
  { who := if a.who.isEmpty then none else some (encStrOrVec a.who),
    criteria := encStrOrVec a.criteria,
    version := match a.kind with | .full v => some v | _ => none,
    delta := match a.kind with | .delta f t => some (f, t) | _ => none,
    violation := match a.kind with | .violation r => some r | _ => none,
    importable := if a.importable then none else some false,
    notes := a.notes,
    aggregatedFrom := if a.aggregatedFrom.isEmpty then none else some (encStrOrVec a.aggregatedFrom) }

/-- `TryFrom<AuditEntryAll>`: exactly one of version / delta / violation -/
def fromAll (x : AuditAll) : Option AuditEntry :=
  let kind : Option Kind :=
    match x.version, x.delta, x.violation with
    | some v, none, none => some (.full v)
    | none, some (f, t), none => some (.delta f t)
    | none, none, some r => some (.violation r)
    | _, _, _ => none
  match kind, decStrOrVec x.criteria,
        (match x.who with | none => some [] | some v => decStrOrVec v),
        (match x.aggregatedFrom with | none => some [] | some v => decStrOrVec v) with
  | some k, some c, some w, some f =>
    some { who := w, criteria := c, kind := k, importable := x.importable.getD true,
           notes := x.notes, aggregatedFrom := f }
  | _, _, _, _ => none

/-! ### policy keys -/

/-- a policy table as held in memory: per crate either one entry or a map version → entry.
`E` is the entry type (opaque here). -/
inductive PkgPolicy (E : Type)
  | unversioned (e : E)
  | versioned (vs : List (Nat × E))
deriving Repr, DecidableEq

/-- a written key: the crate name alone, or `name:version` -/
inductive Key
  | plain (name : Nat)
  | withVersion (name version : Nat)
deriving Repr, DecidableEq

/-- `From<Policy> for AllPolicies` -/
def encPolicy {E : Type} (p : List (Nat × PkgPolicy E)) : List (Key × E) :=
  p.flatMap (fun (n, pp) =>
    match pp with
    | .unversioned e => [(.plain n, e)]
    | .versioned vs => vs.map (fun (v, e) => (.withVersion n v, e)))

def insertVer {E : Type} (n v : Nat) (e : E) : List (Nat × PkgPolicy E) → Option (List (Nat × PkgPolicy E))
  | [] => some [(n, .versioned [(v, e)])]
  | (n', pp) :: rest =>
    if n' = n then
      match pp with
      | .versioned vs => some ((n', .versioned (vs ++ [(v, e)])) :: rest)
      | .unversioned _ => none                      -- MixedVersioning
    else (insertVer n v e rest).map ((n', pp) :: ·)

def insertPlain {E : Type} (n : Nat) (e : E) (acc : List (Nat × PkgPolicy E)) : Option (List (Nat × PkgPolicy E)) :=
  if acc.any (fun x => x.1 == n) then none else some (acc ++ [(n, .unversioned e)])

/-- `TryFrom<AllPolicies> for Policy` (keys arrive in the order written) -/
def decPolicy {E : Type} : List (Key × E) → List (Nat × PkgPolicy E) → Option (List (Nat × PkgPolicy E))
  | [], acc => some acc
  | (.plain n, e) :: rest, acc =>
    match insertPlain n e acc with
    | none => none
    | some acc' => decPolicy rest acc'
  | (.withVersion n v, e) :: rest, acc =>
    match insertVer n v e acc with
    | none => none
    | some acc' => decPolicy rest acc'

/-! ### tidy -/

def insertSortedNat (x : Nat) : List Nat → List Nat
  | [] => [x]
  | y :: ys => if x ≤ y then x :: y :: ys else y :: insertSortedNat x ys

def sortNat (l : List Nat) : List Nat := l.foldr insertSortedNat []

/-- `tidy` on a table of lists (entries abstracted to their sort rank): sort every list, drop
empty ones -/
def tidy (t : List (Nat × List Nat)) : List (Nat × List Nat) :=
  (t.map (fun (k, l) => (k, sortNat l))).filter (fun e => !e.2.isEmpty)

end Vet.Serde
