/-
Model of `src/criteria.rs` (CriteriaSet, CriteriaMapper).

Criteria sets are `Nat` bitmasks (`CriteriaSet(u64)` below the 64-criteria assertion).
Criteria *names* are interned by the harness: index 0 = safe-to-run, 1 = safe-to-deploy,
2+i = i-th custom criterion in `BTreeMap` (sorted) order; any name that is not defined is
sent as an index `≥ n` (the `HashMap` index panic of the code).
-/
namespace Vet

abbrev CSet := Nat

/-- Places where the Rust code panics. -/
inductive Panic
  | dupCriteria        -- "Cannot specify multiple criteria with the name"
  | impliesItself      -- "criteria '..' implies itself"
  | tooMany            -- "64 was not Enough For Everyone"
  | unknownCriterion   -- `self.index[name]` on a name that is not defined
  | outOfFuel          -- never produced on any input (fuel bounds are sufficient); kept visible
  | other
deriving Repr, DecidableEq, BEq

def Panic.toString : Panic → String
  | .dupCriteria => "panic:dup-criteria"
  | .impliesItself => "panic:implies-itself"
  | .tooMany => "panic:too-many"
  | .unknownCriterion => "panic:unknown-criterion"
  | .outOfFuel => "panic:out-of-fuel"
  | .other => "panic:other"

namespace CSet
@[inline] def has (s : CSet) (i : Nat) : Bool := s.testBit i
@[inline] def single (i : Nat) : CSet := 1 <<< i
@[inline] def set (s : CSet) (i : Nat) : CSet := s ||| (1 <<< i)
/-- `self.contains(other)`: `(self & other) == other`. -/
@[inline] def containsSet (s o : CSet) : Bool := (s &&& o) == o
/-- `CriteriaSet::indices` for a set whose bits are all below `n`: ascending positions. -/
def indices (n : Nat) (s : CSet) : List Nat := (List.range n).filter (fun i => s.testBit i)
/-- `CriteriaSet::all(n)`: `(1 << n) - 1`. -/
def all (n : Nat) : CSet := (1 <<< n) - 1
/-- `self.0 &= !other.0` -/
def clear (n : Nat) (s o : CSet) : CSet :=
  (indices n s).foldl (fun acc i => if o.testBit i then acc else acc ||| (1 <<< i)) 0
end CSet

/-- One custom criterion as the harness sends it: `clash` = 1/2 if its name equals a
built-in (safe-to-run / safe-to-deploy), 0 otherwise; `implies` = indices. -/
structure CustomCrit where
  clash : Nat
  implies : List Nat
deriving Repr, DecidableEq

abbrev Table := List CustomCrit

/-- Number of criteria: the two built-ins plus the customs. -/
def Table.n (t : Table) : Nat := 2 + t.length

/-- `direct_implies`: built-in `safe-to-deploy → safe-to-run` plus the listed implications.
An `implies` entry that is not a defined name is the `index[..]` panic. -/
def directImplies (t : Table) : Except Panic (List CSet) :=
  let n := t.n
  let rec go : List CustomCrit → Except Panic (List CSet)
    | [] => .ok []
    | c :: cs =>
      if c.implies.any (fun i => decide (n ≤ i)) then .error .unknownCriterion
      else match go cs with
        | .error e => .error e
        | .ok rest => .ok (c.implies.foldl (fun s i => s ||| (1 <<< i)) 0 :: rest)
  match go t with
  | .error e => .error e
  | .ok cs => .ok (0 :: (1 <<< 0) :: cs)

/-- the `for idx in direct_implies[cur].indices()` loop of `recurse_implies`, with the recursive
call abstracted as `rec` (keeps `recurseImplies` structurally recursive on its fuel) -/
def implLoop (rec : CSet → Nat → Except Panic CSet) : List Nat → CSet → Except Panic CSet
  | [], r => .ok r
  | idx :: rest, r =>
    if r.testBit idx then implLoop rec rest r
    else match rec (r ||| (1 <<< idx)) idx with
      | .error e => .error e
      | .ok r' => implLoop rec rest r'

/-- `recurse_implies`: for each directly implied index not yet in `result`, add it and
recurse from it.  `fuel` bounds the recursion depth (each level sets a new bit). -/
def recurseImplies (n : Nat) (direct : List CSet) : Nat → CSet → Nat → Except Panic CSet
  | 0, _, _ => .error .outOfFuel
  | fuel + 1, result, cur =>
    implLoop (recurseImplies n direct fuel) (CSet.indices n (direct.getD cur 0)) result

/-- The processed criteria table. -/
structure Mapper where
  n : Nat
  implied : List CSet       -- `implied_criteria`, closure including self
deriving Repr, DecidableEq

/-- Closure of each index, with the self-implication check, in index order. -/
def impliedAll (n : Nat) (direct : List CSet) : List Nat → Except Panic (List CSet)
  | [] => .ok []
  | idx :: rest =>
    match recurseImplies n direct (n + 1) 0 idx with
    | .error e => .error e
    | .ok imp =>
      if imp.testBit idx then .error .impliesItself
      else match impliedAll n direct rest with
        | .error e => .error e
        | .ok more => .ok ((imp ||| (1 <<< idx)) :: more)

/-- `CriteriaMapper::new`.  Panic order as in the code: duplicate name, then the size
assertion (`CriteriaSet::none(names.len())`), then unknown `implies`, then cycles. -/
def Mapper.new (t : Table) : Except Panic Mapper :=
  if t.any (fun c => c.clash != 0) then .error .dupCriteria
  else if 64 < t.n then .error .tooMany
  else match directImplies t with
    | .error e => .error e
    | .ok direct =>
      match impliedAll t.n direct (List.range t.n) with
      | .error e => .error e
      | .ok imp => .ok { n := t.n, implied := imp }

/-! ### `check_criteria_table` (src/criteria.rs): can this table be mapped at all?

The depth-first search of the code over the custom criteria, with `path` (names on the current
branch) and `done` (names finished, most recent first).  A name which is not the key of a
custom criterion (a built-in, or an undefined name) has no outgoing edges.  `fuel` bounds the
recursion depth; every level pushes a name that is not on `path`, so `t.n + 1` suffices. -/

/-- `criteria.get(name).implies` -/
def Table.succs (t : Table) (i : Nat) : List Nat :=
  if 2 ≤ i then (match t[i - 2]? with | some c => c.implies | none => []) else []

/-- the `for implied in &entry.implies { visit(..)? }` loop, recursive call abstracted -/
def dfsChildren (rec : Nat → List Nat → Option (List Nat)) : List Nat → List Nat → Option (List Nat)
  | [], done => some done
  | c :: cs, done =>
    match rec c done with
    | none => none
    | some done' => dfsChildren rec cs done'

/-- `visit(criteria, name, path, done)`: `none` = `Err("criteria '..' implies itself")` -/
def dfsVisit (t : Table) : Nat → List Nat → Nat → List Nat → Option (List Nat)
  | 0, _, _, _ => none
  | fuel + 1, path, name, done =>
    if done.contains name then some done
    else if path.contains name then none
    else match dfsChildren (dfsVisit t fuel (name :: path)) (t.succs name) done with
      | none => none
      | some done' => some (name :: done')

/-- the outer `for name in criteria.keys()` loop -/
def dfsAll (t : Table) : List Nat → List Nat → Option (List Nat)
  | [], done => some done
  | name :: rest, done =>
    match dfsVisit t (t.n + 1) [] name done with
    | none => none
    | some done' => dfsAll t rest done'

/-- `check_criteria_table(..).is_ok()`: no built-in redefined, at most 64 criteria, no
criterion on an implication cycle -/
def checkTable (t : Table) : Bool :=
  !t.any (fun c => c.clash != 0) && decide (t.n ≤ 64) &&
    (dfsAll t ((List.range t.length).map (· + 2)) []).isSome

/-- `criteria_from_list`: union of the closures; unknown name = index panic. -/
def Mapper.fromList (m : Mapper) : List Nat → Except Panic CSet
  | [] => .ok 0
  | i :: rest =>
    if m.n ≤ i then .error .unknownCriterion
    else match m.fromList rest with
      | .error e => .error e
      | .ok s => .ok (m.implied.getD i 0 ||| s)

/-- `minimal_indices`: members not implied by another member. -/
def Mapper.minimal (m : Mapper) (s : CSet) : List Nat :=
  let idx := CSet.indices m.n s
  idx.filter (fun cur => idx.all (fun other => cur == other || !(m.implied.getD other 0).testBit cur))

/-- `all_criteria()` -/
def Mapper.all (m : Mapper) : CSet := CSet.all m.n

end Vet
