/-
Model of `unpack_package` / `fetch_is_ok` (src/storage.rs:2581-2645, 2732-2737) and of the
behaviour of `tar 0.4.38 Entry::unpack_in` that it relies on.

The file system is a finite map from absolute paths (lists of name ids) to nodes.  The shared
source directory of the cache is `srcDir`; crate `p` is unpacked into `srcDir ++ [p]`.
Name id 0 is the completion marker `.cargo-ok`; content id 1 is its body "ok".
-/
namespace Vet.Unpack

abbrev Path := List Nat

inductive Node
  | dir
  | file (content : Nat)
  | symlink (target : Path)          -- absolute target (relative targets are resolved by the harness)
deriving Repr, DecidableEq

abbrev FS := List (Path × Node)

def lookup (fs : FS) (p : Path) : Option Node :=
  match fs with
  | [] => none
  | (q, n) :: rest => if q = p then some n else lookup rest p

def remove (fs : FS) (p : Path) : FS := fs.filter (fun e => e.1 != p)

/-- remove a path and everything below it (`remove_dir_all`, not following links) -/
def removeTree (fs : FS) (p : Path) : FS := fs.filter (fun e => !(p.isPrefixOf e.1))

def set (fs : FS) (p : Path) (n : Node) : FS := (p, n) :: remove fs p

/-- resolve symlinks along a path (`canonicalize`); `none` on a dangling prefix or a loop -/
def canon (fs : FS) : Nat → Path → Path → Option Path
  | 0, _, _ => none
  | _ + 1, acc, [] => some acc
  | fuel + 1, acc, c :: rest =>
    match lookup fs (acc ++ [c]) with
    | some (.symlink t) => canon fs fuel [] (t ++ rest)
    | some _ => canon fs fuel (acc ++ [c]) rest
    | none => none

inductive EntryKind
  | file (content : Nat)
  | dir
  | symlink (target : Path)
deriving Repr, DecidableEq

/-- a path component of an archive entry -/
inductive Comp
  | normal (name : Nat)
  | parent                          -- `..`
  | root                            -- leading `/` or `.` (ignored by `unpack_in`)
deriving Repr, DecidableEq

structure Entry where
  path : List Comp
  kind : EntryKind
deriving Repr, DecidableEq

inductive Step
  | ok (fs : FS)
  | error                           -- unpacking stops with an error (nothing more is written)

/-- `create_dir_all` along `p` below an existing `base`: missing components become directories;
existing ones (directories or links) are left alone -/
def mkdirs (fs : FS) (base : Path) : Path → FS
  | [] => fs
  | c :: rest =>
    let here := base ++ [c]
    let fs' := match lookup fs here with
      | none => set fs here .dir
      | some _ => fs
    mkdirs fs' here rest

/-- the prefix test of `unpack_package`: component-wise `starts_with(prefix)` on the raw path -/
def hasPrefix (prefix_ : Nat) (e : Entry) : Bool :=
  match e.path with
  | .normal n :: _ => n == prefix_
  | _ => false

/-- the entry is `<prefix>/.cargo-ok` (`.` components ignored): `unpack_package` skips it, so an
archive can never supply the completion marker itself -/
def isMarkerEntry (prefix_ : Nat) (e : Entry) : Bool :=
  e.path.filter (fun c => c != .root) == [.normal prefix_, .normal 0]

/-- `entry.unpack_in(srcDir)` -/
def unpackIn (fs : FS) (srcDir : Path) (e : Entry) : Step :=
  if e.path.any (fun c => c == .parent) then .ok fs            -- skipped
  else
    let rel := e.path.filterMap (fun c => match c with | .normal n => some n | _ => none)
    if rel.isEmpty then .ok fs
    else
      let parentRel := rel.dropLast
      let fs1 := mkdirs fs srcDir parentRel
      -- the parent, with links resolved, must stay inside the destination directory
      match canon fs1 64 [] (srcDir ++ parentRel), canon fs1 64 [] srcDir with
      | some cp, some cd =>
        if !(cd.isPrefixOf cp) then .error
        else
          let target := cp ++ [rel.getLastD 0]
          -- tar refuses to replace a directory by a file or link (`remove_file` fails), and a
          -- non-directory by a directory
          match e.kind, lookup fs1 target with
          | .dir, none => .ok (set fs1 target .dir)
          | .dir, some .dir => .ok fs1
          | .dir, some (.symlink t) => if lookup fs1 t == some .dir then .ok fs1 else .error
          | .dir, some (.file _) => .error
          | .file _, some .dir => .error
          | .file c, _ => .ok (set fs1 target (.file c))       -- an existing file or link is replaced, not followed
          | .symlink _, some .dir => .error
          | .symlink t, _ => .ok (set fs1 target (.symlink t))
      | _, _ => .error
  
/-- unpack the first `k` entries (a crash or corrupt download cuts the rest off); the marker is
written only when every entry was processed -/
def unpackEntries (fs : FS) (srcDir : Path) (prefix_ : Nat) : List Entry → Nat → FS × Bool
  | [], _ => (fs, true)
  | _ :: _, 0 => (fs, false)
  | e :: rest, k + 1 =>
    if !hasPrefix prefix_ e then (fs, false)
    else if isMarkerEntry prefix_ e then unpackEntries fs srcDir prefix_ rest k   -- skipped (fix c4…)
    else match unpackIn fs srcDir e with
      | .error => (fs, false)
      | .ok fs' => unpackEntries fs' srcDir prefix_ rest k

def markerPath (srcDir : Path) (prefix_ : Nat) : Path := srcDir ++ [prefix_, 0]

/-- `OpenOptions::new().create(true).truncate(true).write(true).open(p)`: an existing symlink at
`p` is followed (the link's target is created or truncated); a directory at `p` makes the open fail -/
def writeThrough (fs : FS) : Nat → Path → Nat → FS
  | 0, _, _ => fs
  | fuel + 1, p, content =>
    match lookup fs p with
    | some (.symlink t) => writeThrough fs fuel t content
    | some .dir => fs          -- EISDIR: a directory cannot be opened for writing; nothing is written
    | _ => set fs p (.file content)

/-- `unpack_package`, cut short after `crashAfter` entries (`none` = not interrupted) -/
def unpackPackage (fs : FS) (srcDir : Path) (prefix_ : Nat) (archive : List Entry) (crashAfter : Option Nat) : FS :=
  let dir := srcDir ++ [prefix_]
  let fs0 := set (removeTree fs dir) dir .dir
  let (fs1, done) := unpackEntries fs0 srcDir prefix_ archive (crashAfter.getD archive.length)
  if done && crashAfter.isNone then writeThrough fs1 8 (markerPath srcDir prefix_) 1 else fs1

/-- `fetch_is_ok`: the marker exists and reads "ok" (reading follows links) -/
def fetchIsOk (fs : FS) (srcDir : Path) (prefix_ : Nat) : Bool :=
  match canon fs 64 [] (markerPath srcDir prefix_) with
  | some p => lookup fs p == some (.file 1)
  | none => false

/-- the fetch logic: use the directory if the marker says so, else unpack from scratch -/
def fetch (fs : FS) (srcDir : Path) (prefix_ : Nat) (archive : List Entry) : FS :=
  if fetchIsOk fs srcDir prefix_ then fs else unpackPackage fs srcDir prefix_ archive none

end Vet.Unpack
