/-
Model of `Store::validate` (src/storage.rs): the well-formedness check of the criteria table,
which criteria references are checked against it when a store is loaded, the wildcard end-date cap, and the
locked-mode staleness check of imports.lock.  `today + 12 months` is supplied as a day number
(chrono's calendar arithmetic is not modelled).
-/
import Vet.Model.Resolve
namespace Vet

inductive ValidateError
  | invalidCriteria       -- a reference to an undefined criterion at a checked site
  | badWildcardEndDate
  | importsLockOutdated
  | invalidCriteriaTable  -- the table redefines a built-in, is too large, or has an implication cycle
deriving Repr, DecidableEq

def badRefs (n : Nat) (l : List Nat) : Nat := (l.filter (fun i => decide (n ≤ i))).length

def policyEntryBad (n : Nat) (e : PolicyEntry) : Nat :=
  badRefs n (e.criteria.getD []) + badRefs n (e.devCriteria.getD []) +
    (e.depCriteria.map (fun d => badRefs n d.2)).sum

def policyBad (n : Nat) (p : Policy) : Nat :=
  (p.map (fun (_, pp) =>
    match pp with
    | .unversioned e => policyEntryBad n e
    | .versioned vs => (vs.map (fun v => policyEntryBad n v.2)).sum)).sum

/-- undefined criteria in the audits and wildcard audits of one (imports.lock) audits file -/
def afileBad (n : Nat) (f : AFile) : Nat :=
  (f.audits.map (fun e => (e.2.map (fun a => badRefs n a.criteria)).sum)).sum
  + (f.wildcards.map (fun e => (e.2.map (fun a => badRefs n a.criteria)).sum)).sum

/-- number of `InvalidCriteria` errors `validate` reports: exemptions, policy (criteria,
dev-criteria, dependency-criteria), `implies`, local audits, local wildcard audits, `trusted`
entries, the targets of every import's `criteria-map` (`mapTargets`), and — for a locked load,
which uses imports.lock as it is — the audits and wildcard audits recorded in imports.lock. -/
def invalidCriteriaCount (t : Table) (s : Store) (locked : Bool) (mapTargets : List (List Nat)) : Nat :=
  let n := t.n
  (s.exemptions.map (fun e => (e.2.map (fun x => badRefs n x.criteria)).sum)).sum
  + policyBad n s.policy
  + (t.map (fun c => badRefs n c.implies)).sum
  + (s.locals.audits.map (fun e => (e.2.map (fun a => badRefs n a.criteria)).sum)).sum
  + (s.locals.wildcards.map (fun e => (e.2.map (fun a => badRefs n a.criteria)).sum)).sum
  + (s.trusted.map (fun e => (e.2.map (fun x => badRefs n x.criteria)).sum)).sum
  + (mapTargets.map (badRefs n)).sum
  + (if locked then (s.imports.map (afileBad n)).sum else 0)

def lateWildcards (maxEnd : Nat) (s : Store) : Nat :=
  (s.locals.wildcards.map (fun e => (e.2.filter (fun w => decide (maxEnd < w.stop))).length)).sum

/-- `imports_lock_outdated` (locked loads only): the lock must list exactly the configured
imports and must not contain audits (or, since the fix, wildcard audits) of excluded crates.
`cfgImports`: per configured import its name id and exclude list; `lockNames`: names in the lock. -/
def importsLockOutdated (cfgImports : List (Nat × List Nat)) (lockNames : List Nat) (lock : List AFile) : Bool :=
  cfgImports.map (·.1) != lockNames ||
  (cfgImports.zip lock).any (fun ((_, excl), f) =>
    excl.any (fun c => (f.audits.any (fun e => e.1 == c)) || (f.wildcards.any (fun e => e.1 == c))))

/-- `Store::validate(today, check_file_formatting)` without the formatting self-check;
`mapTargets`: the local criteria lists on the right-hand sides of all `criteria-map` entries -/
def validate (t : Table) (s : Store) (maxEnd : Nat) (locked : Bool)
    (cfgImports : List (Nat × List Nat)) (lockNames : List Nat) (mapTargets : List (List Nat)) :
    List ValidateError :=
  (if checkTable t then [] else [.invalidCriteriaTable])
  ++ List.replicate (invalidCriteriaCount t s locked mapTargets) .invalidCriteria
  ++ List.replicate (lateWildcards maxEnd s) .badWildcardEndDate
  ++ (if locked && importsLockOutdated cfgImports lockNames s.imports then [.importsLockOutdated] else [])

/-- the audits file only names defined local criteria -/
def AFile.RefsValid (n : Nat) (f : AFile) : Prop :=
  (∀ e ∈ f.audits, ∀ a ∈ e.2, ∀ c ∈ a.criteria, c < n) ∧
  (∀ e ∈ f.wildcards, ∀ a ∈ e.2, ∀ c ∈ a.criteria, c < n)

/-- every criteria reference at a site the resolver will evaluate is defined -/
def AllRefsValid (t : Table) (s : Store) : Prop :=
  invalidCriteriaCount t s false [] = 0 ∧
  (∀ f ∈ s.imports, f.RefsValid t.n)

end Vet
