/-
Model of `Store::validate` (src/storage.rs:530-734): which criteria references are checked
against the criteria table when a store is loaded, the wildcard end-date cap, and the
locked-mode staleness check of imports.lock.  `today + 12 months` is supplied as a day number
(chrono's calendar arithmetic is not modelled).
-/
import Vet.Model.Resolve
namespace Vet

inductive ValidateError
  | invalidCriteria       -- a reference to an undefined criterion at a checked site
  | badWildcardEndDate
  | importsLockOutdated
deriving Repr, DecidableEq

def badRefs (n : Nat) (l : List Nat) : Nat := (l.filter (fun i => decide (n ≤ i))).length

def policyEntryBad (n : Nat) (e : PolicyEntry) : Nat :=
  badRefs n (e.criteria.getD []) + badRefs n (e.devCriteria.getD []) +
    (e.depCriteria.map (fun d => badRefs n d.2)).sum

def policyBad (n : Nat) (p : Policy) : Nat :=
  (p.map (fun (_, pp) =>
    match pp with
    | .unversioned e => policyEntryBad n e
    | .versioned vs => (vs.map (fun v => policyEntryBad n v.2)).sum)).sum

/-- number of `InvalidCriteria` errors `validate` reports: exemptions, policy (criteria,
dev-criteria, dependency-criteria), `implies`, local audits, local wildcard audits.
NOT checked by the code: trusted entries, imports.lock, criteria-map targets, and the
well-formedness of the criteria table itself. -/
def invalidCriteriaCount (t : Table) (s : Store) : Nat :=
  let n := t.n
  (s.exemptions.map (fun e => (e.2.map (fun x => badRefs n x.criteria)).sum)).sum
  + policyBad n s.policy
  + (t.map (fun c => badRefs n c.implies)).sum
  + (s.locals.audits.map (fun e => (e.2.map (fun a => badRefs n a.criteria)).sum)).sum
  + (s.locals.wildcards.map (fun e => (e.2.map (fun a => badRefs n a.criteria)).sum)).sum

def lateWildcards (maxEnd : Nat) (s : Store) : Nat :=
  (s.locals.wildcards.map (fun e => (e.2.filter (fun w => decide (maxEnd < w.stop))).length)).sum

/-- `imports_lock_outdated` (locked loads only): the lock must list exactly the configured
imports and must not contain audits (or, since the fix, wildcard audits) of excluded crates.
`cfgImports`: per configured import its name id and exclude list; `lockNames`: names in the lock. -/
def importsLockOutdated (cfgImports : List (Nat × List Nat)) (lockNames : List Nat) (lock : List AFile) : Bool :=
  cfgImports.map (·.1) != lockNames ||
  (cfgImports.zip lock).any (fun ((_, excl), f) =>
    excl.any (fun c => (f.audits.any (fun e => e.1 == c)) || (f.wildcards.any (fun e => e.1 == c))))

/-- `Store::validate(today, check_file_formatting)` without the formatting self-check -/
def validate (t : Table) (s : Store) (maxEnd : Nat) (locked : Bool)
    (cfgImports : List (Nat × List Nat)) (lockNames : List Nat) : List ValidateError :=
  List.replicate (invalidCriteriaCount t s) .invalidCriteria
  ++ List.replicate (lateWildcards maxEnd s) .badWildcardEndDate
  ++ (if locked && importsLockOutdated cfgImports lockNames s.imports then [.importsLockOutdated] else [])

/-- every criteria reference at a site the resolver will evaluate is defined -/
def AllRefsValid (t : Table) (s : Store) : Prop :=
  invalidCriteriaCount t s = 0 ∧
  (∀ e ∈ s.trusted, ∀ x ∈ e.2, ∀ c ∈ x.criteria, c < t.n) ∧
  (∀ f ∈ s.imports, (∀ e ∈ f.audits, ∀ a ∈ e.2, ∀ c ∈ a.criteria, c < t.n) ∧
                    (∀ e ∈ f.wildcards, ∀ a ∈ e.2, ∀ c ∈ a.criteria, c < t.n))

end Vet
