/-
The part of the store the resolver reads (src/format.rs record types, src/storage.rs:458-487
views).  Versions, users and package names are order-preserving ranks; dates are day numbers.
A violation's `VersionReq::matches` is an oracle table: the list of versions (of the case's
version universe) that it matches.
-/
import Vet.Model.Graph
namespace Vet

inductive AuditKind
  | full (v : Nat)
  | delta (f t : Nat)
  | violation (matched : List Nat)
deriving Repr, DecidableEq

structure Audit where
  kind : AuditKind
  criteria : List Nat
  importable : Bool
  fresh : Bool                 -- `is_fresh_import`
deriving Repr, DecidableEq

structure Wildcard where
  user : Nat
  start : Nat
  stop : Nat                   -- `end`
  criteria : List Nat
  fresh : Bool
deriving Repr, DecidableEq

structure Trusted where
  user : Nat
  start : Nat
  stop : Nat
  criteria : List Nat
deriving Repr, DecidableEq

structure Publisher where
  version : Nat
  user : Nat
  day : Nat                    -- `when`
  fresh : Bool
deriving Repr, DecidableEq

structure Unpub where
  version : Nat
  auditedAs : Nat
  fresh : Bool
deriving Repr, DecidableEq

structure Exemption where
  version : Nat
  criteria : List Nat
  suggest : Bool
deriving Repr, DecidableEq

/-- the `audits` and `wildcard-audits` tables of one audits file, keyed by package name -/
structure AFile where
  audits : List (Nat × List Audit)
  wildcards : List (Nat × List Wildcard)
deriving Repr, DecidableEq

/-- The view of the store `AuditGraph::build` works on: `imported_audits()`, `publishers()`
and `unpublished()` already resolved to the live or the locked set. -/
structure Store where
  imports : List AFile                        -- `imported_audits().values()`, import-name order
  locals : AFile                              -- audits.toml
  trusted : List (Nat × List Trusted)         -- audits.toml only
  publishers : List (Nat × List Publisher)
  unpublished : List (Nat × List Unpub)
  exemptions : List (Nat × List Exemption)
  policy : Policy
deriving Repr, DecidableEq

def getL {β : Type} (k : Nat) (m : List (Nat × List β)) : List β := (assoc? k m).getD []

end Vet
