/-
`cargo vet renew` (src/main.rs: `do_cmd_renew` 1858-1925, `WildcardAuditRenewal` 2300-2402,
`WildcardEntry::should_renew` format.rs:538): which local wildcard audits get their end date
moved to today + 12 months.  Dates are day numbers; `cap` = today + 12 months is computed by
chrono and supplied.
-/
namespace Vet.Renew

structure Entry where
  stop : Nat                  -- `end`
  renew : Option Bool
deriving Repr, DecidableEq

/-- `should_renew(date)` -/
def Entry.shouldRenew (e : Entry) (date : Nat) : Bool := e.renew.getD true && e.stop < date

/-- one crate's wildcard audits with the crate's most recent publication day, if crates.io data
is loaded for it (`None` = no publisher record: the code falls back to today) -/
structure Crate where
  name : Nat
  lastPublish : Option Nat
  entries : List Entry
deriving Repr, DecidableEq

/-- six weeks / sixteen weeks in days -/
def expirationDays : Nat := 42
def inactiveDays : Nat := 112

/-- is this entry picked by `renew --expiring`? -/
def pickExpiring (today : Nat) (ignoreInactive : Bool) (lastPublish : Option Nat) (e : Entry) : Bool :=
  let lp := lastPublish.getD today
  e.shouldRenew (today + expirationDays) &&
    !(ignoreInactive && lp < e.stop && lp + inactiveDays < today)

def setEnd (cap : Nat) (pick : Entry → Bool) (l : List Entry) : List Entry :=
  l.map (fun e => if pick e then { e with stop := cap } else e)

/-- `renew --expiring [--include-inactive]` -/
def renewExpiring (today cap : Nat) (ignoreInactive : Bool) (t : List Crate) : List Crate :=
  t.map (fun c => { c with entries := setEnd cap (pickExpiring today ignoreInactive c.lastPublish) c.entries })

/-- `renew <crate>`: every eligible audit of that crate, expiring or not -/
def renewCrate (cap name : Nat) (t : List Crate) : List Crate :=
  t.map (fun c => if c.name = name then { c with entries := setEnd cap (fun e => e.renew.getD true) c.entries } else c)

end Vet.Renew
