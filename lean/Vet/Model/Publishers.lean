/-
Model of `import_publisher_versions` / `wildcard_audits_packages` (src/storage.rs:1528-1633): which
crates get a live publisher table when going online, and what it contains.  Versions are semver
ranks, users are ids, days are day numbers.
-/
import Vet.Model.Store
namespace Vet.Pub

/-- one version as crates.io lists it: `published_by` may be unknown -/
structure RegVersion where
  version : Nat
  user : Option Nat
  day : Nat
deriving Repr, DecidableEq

/-- what decides whether a crate's publisher data is fetched (non-forced) -/
structure CrateFacts where
  name : Nat
  ownWildcard : Bool        -- audits.toml has wildcard audits for it
  importedWildcard : Bool   -- some import, as fetched now (live), serves wildcard audits for it
  livePublisher : Bool      -- the live publisher table under construction already has the crate
                            -- (never the case at the call sites: the table starts empty, so what
                            -- imports.lock remembers does not make a crate relevant)
  ownTrusted : Bool         -- audits.toml has trusted entries for it
  thirdPartyInGraph : Bool  -- some package of that name in the graph is third-party
  lockVersions : List Nat   -- versions imports.lock records a publisher for
  registry : List RegVersion
deriving Repr, DecidableEq

def CrateFacts.relevant (c : CrateFacts) : Bool :=
  (c.ownWildcard || c.importedWildcard || c.livePublisher || c.ownTrusted) && c.thirdPartyInGraph

/-- the live publisher records of one fetched crate: one per registry version with a known
publisher; user and day come from the registry; fresh = the version is not in imports.lock -/
def records (c : CrateFacts) : List Publisher :=
  c.registry.filterMap (fun v => v.user.map (fun u => ⟨v.version, u, v.day, !c.lockVersions.contains v.version⟩))

/-- the live `publisher` table: an entry (possibly empty) for every relevant crate, nothing else -/
def livePublishers (cs : List CrateFacts) : List (Nat × List Publisher) :=
  (cs.filter (·.relevant)).map (fun c => (c.name, records c))

end Vet.Pub
