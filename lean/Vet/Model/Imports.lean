/-
Model of the import pipeline (src/storage.rs:847-1165, 1182-1404; src/main.rs:2488-2606):
tolerant per-entry parsing of a peer file, `exclude`, foreign→local criteria rewriting,
multi-URL aggregation and freshness marking against imports.lock.

Whether a raw entry parses is an input flag (the TOML/serde layer is not modelled here).
Foreign criteria names are interned per source: 0/1 = built-ins, 2+i = i-th parseable custom
criterion of that source, anything else ≥ n.
-/
import Vet.Model.Store
namespace Vet

structure PeerFile where
  table : Table                                  -- parseable criteria entries (implies still raw)
  descs : List (Nat × Nat)                       -- per custom: (name id across sources, description id)
  audits : List (Nat × List (Bool × Audit))      -- (parses?, entry with *foreign* criteria indices)
  wildcards : List (Nat × List (Bool × Wildcard))
  cmap : List (Nat × List Nat)                   -- criteria-map: foreign index → local criteria list
deriving Repr, DecidableEq

structure ImportCfg where
  sources : List PeerFile                        -- one per URL
  exclude : List Nat
deriving Repr, DecidableEq

/-- `entry.implies.retain(is_known_criteria)` -/
def sanitizeTable (t : Table) : Table :=
  t.map (fun c => { c with implies := c.implies.filter (fun i => decide (i < t.n)) })

/-- keep parseable entries, strip unknown criteria, drop entries left without criteria -/
def sanitizeAudits (n : Nat) (l : List (Bool × Audit)) : List Audit :=
  l.filterMap (fun (ok, a) =>
    if !ok then none
    else
      let cs := a.criteria.filter (fun i => decide (i < n))
      if cs.isEmpty then none else some { a with criteria := cs })

def sanitizeWildcards (n : Nat) (l : List (Bool × Wildcard)) : List Wildcard :=
  l.filterMap (fun (ok, a) =>
    if !ok then none
    else
      let cs := a.criteria.filter (fun i => decide (i < n))
      if cs.isEmpty then none else some { a with criteria := cs })

/-- `foreign_to_local_mapping`: per foreign index the local set it stands for -/
def foreignToLocal (lm : Mapper) (cmap : List (Nat × List Nat)) : List Nat → Except Panic (List CSet)
  | [] => .ok []
  | f :: rest =>
    let here : Except Panic CSet :=
      match assoc? f cmap with
      | some l => lm.fromList l
      | none => if f = 1 then lm.fromList [1] else if f = 0 then lm.fromList [0] else .ok 0
    match here with
    | .error e => .error e
    | .ok s =>
      match foreignToLocal lm cmap rest with
      | .error e => .error e
      | .ok ss => .ok (s :: ss)

/-- `make_criteria_local` -/
def makeLocal (lm fm : Mapper) (mapping : List CSet) (criteria : List Nat) : Except Panic (List Nat) :=
  match fm.fromList criteria with
  | .error e => .error e
  | .ok fs =>
    .ok (lm.minimal ((CSet.indices fm.n fs).foldl (fun acc i => acc ||| mapping.getD i 0) 0))

def localizeAudits (lm fm : Mapper) (mapping : List CSet) : List Audit → Except Panic (List Audit)
  | [] => .ok []
  | a :: rest =>
    match makeLocal lm fm mapping a.criteria with
    | .error e => .error e
    | .ok c =>
      match localizeAudits lm fm mapping rest with
      | .error e => .error e
      | .ok r => .ok ({ a with criteria := c, fresh := true } :: r)

def localizeWildcards (lm fm : Mapper) (mapping : List CSet) : List Wildcard → Except Panic (List Wildcard)
  | [] => .ok []
  | a :: rest =>
    match makeLocal lm fm mapping a.criteria with
    | .error e => .error e
    | .ok c =>
      match localizeWildcards lm fm mapping rest with
      | .error e => .error e
      | .ok r => .ok ({ a with criteria := c, fresh := true } :: r)

def mapTable {α β : Type} (f : List α → Except Panic (List β)) :
    List (Nat × List α) → Except Panic (List (Nat × List β))
  | [] => .ok []
  | (n, l) :: rest =>
    match f l with
    | .error e => .error e
    | .ok l' =>
      match mapTable f rest with
      | .error e => .error e
      | .ok r => .ok ((n, l') :: r)

/-- `fetch_single_imported_audit` after download: sanitise, exclude, rewrite -/
def importSource (lm : Mapper) (exclude : List Nat) (p : PeerFile) : Except Panic AFile :=
  let t := sanitizeTable p.table
  let n := t.n
  -- non-importable audits never leave the peer file; empty tables disappear
  let audits := (p.audits.map (fun (name, l) =>
      (name, (sanitizeAudits n l).filter (·.importable)))).filter (fun e => !e.2.isEmpty)
  let wild := (p.wildcards.map (fun (name, l) => (name, sanitizeWildcards n l))).filter (fun e => !e.2.isEmpty)
  -- `exclude` removes audits and wildcard audits of the listed crates
  let audits := audits.filter (fun e => !exclude.contains e.1)
  let wild := wild.filter (fun e => !exclude.contains e.1)
  match Mapper.new t with
  | .error e => .error e
  | .ok fm =>
    match foreignToLocal lm p.cmap (List.range fm.n) with
    | .error e => .error e
    | .ok mapping =>
      match mapTable (localizeAudits lm fm mapping) audits with
      | .error e => .error e
      | .ok a =>
        match mapTable (localizeWildcards lm fm mapping) wild with
        | .error e => .error e
        | .ok w => .ok ⟨a, w⟩

/-- criteria a source still carries after import: those named by the criteria-map -/
def retainedDescs (p : PeerFile) : List (Nat × Nat) :=
  (p.descs.zipIdx.filter (fun (_, i) => (assoc? (i + 2) p.cmap).isSome)).map (·.1)

def insertKey {β : Type} (k : Nat) (v : List β) : List (Nat × List β) → List (Nat × List β)
  | [] => [(k, v)]
  | (k', v') :: rest =>
    if k < k' then (k, v) :: (k', v') :: rest
    else if k = k' then (k', v' ++ v) :: rest
    else (k', v') :: insertKey k v rest

def mergeTables {β : Type} (a b : List (Nat × List β)) : List (Nat × List β) :=
  b.foldl (fun acc (k, v) => insertKey k v acc) a

/-- two sources define one criterion differently -/
def descMismatch (srcs : List (List (Nat × Nat))) : Bool :=
  let all := srcs.flatMap id
  all.any (fun (n, d) => all.any (fun (n', d') => n == n' && d != d'))

inductive ImportResult
  | ok (f : AFile)
  | refused            -- a `FetchAuditError`: a source's criteria table cannot be mapped
                       -- (`InvalidCriteriaTable`), or aggregation found a description mismatch
deriving Repr, DecidableEq

/-- `fetch_imported_audit`: one source is used as is, several are aggregated.  Every source's
(sanitised) criteria table goes through `check_criteria_table` before a mapper is built from it;
`go` yields `none` when one is rejected. -/
def importOne (lm : Mapper) (cfg : ImportCfg) : Except Panic ImportResult :=
  let rec go : List PeerFile → Except Panic (Option (List AFile))
    | [] => .ok (some [])
    | p :: ps =>
      if !checkTable (sanitizeTable p.table) then .ok none
      else match importSource lm cfg.exclude p with
      | .error e => .error e
      | .ok f =>
        match go ps with
        | .error e => .error e
        | .ok none => .ok none
        | .ok (some fs) => .ok (some (f :: fs))
  match go cfg.sources with
  | .error e => .error e
  | .ok none => .ok .refused
  | .ok (some [f]) => .ok (.ok f)
  | .ok (some fs) =>
    if descMismatch (cfg.sources.map retainedDescs) then .ok .refused
    else .ok (.ok (fs.foldl (fun acc f =>
      ⟨mergeTables acc.audits (f.audits.map (fun (n, l) => (n, l.filter (·.importable)))),
       mergeTables acc.wildcards f.wildcards⟩) ⟨[], []⟩))

def sameAudit (a b : Audit) : Bool := a.kind == b.kind && a.criteria == b.criteria
def sameWildcard (a b : Wildcard) : Bool :=
  a.user == b.user && a.start == b.start && a.stop == b.stop && a.criteria == b.criteria

/-- mark the first still-fresh entry matching `e` as stale -/
def markFirst {α : Type} (same : α → Bool) (isFresh : α → Bool) (clear : α → α) : List α → List α
  | [] => []
  | x :: xs => if isFresh x && same x then clear x :: xs else x :: markFirst same isFresh clear xs

/-- `update_import_freshness` for one table -/
def markTable {α : Type} (same : α → α → Bool) (isFresh : α → Bool) (clear : α → α)
    (live lock : List (Nat × List α)) : List (Nat × List α) :=
  live.map (fun (n, l) =>
    (n, (getL n lock).foldl (fun l e => markFirst (fun x => same x e) isFresh clear l) l))

def updateFreshness (live lock : AFile) : AFile :=
  ⟨markTable sameAudit (·.fresh) (fun a => { a with fresh := false }) live.audits lock.audits,
   markTable sameWildcard (·.fresh) (fun a => { a with fresh := false }) live.wildcards lock.wildcards⟩

end Vet
