/-
Model of `suggest_delta` (src/resolver.rs:2538-2718), the de-duplication step of
`compute_suggest` (1934-1958) and `compute_suggested_criteria` (2016-2064).
Version sets are lists of `Option Nat` (`none` = the root).  Which versions have sources, and
the diffstat, are inputs.
-/
import Vet.Model.Resolve
namespace Vet.Sug

structure Failure where
  fromRoot : List (Option Nat)
  fromTarget : List (Option Nat)
deriving Repr, DecidableEq

/-- intersect the reachable sets of all failed criteria; the source filter is applied to the
first one only (the others can only shrink the sets) -/
def reachable (hasSources : Option Nat → Bool) : List Failure → Option (List (Option Nat) × List (Option Nat))
  | [] => none
  | f :: rest =>
    some (rest.foldl (fun (acc : List (Option Nat) × List (Option Nat)) g =>
        (acc.1.filter (fun v => g.fromRoot.contains v), acc.2.filter (fun v => g.fromTarget.contains v)))
      (f.fromRoot.filter hasSources, f.fromTarget.filter hasSources))

def optLt (a b : Option Nat) : Bool := optKey a < optKey b

/-- greatest element strictly below / least element at or above `d` -/
def closestBelow (l : List (Option Nat)) (d : Option Nat) : Option (Option Nat) :=
  (l.filter (fun v => optLt v d)).foldl (fun best v =>
    match best with
    | none => some v
    | some b => if optLt b v then some v else some b) none

def closestAbove (l : List (Option Nat)) (d : Option Nat) : Option (Option Nat) :=
  (l.filter (fun v => !optLt v d)).foldl (fun best v =>
    match best with
    | none => some v
    | some b => if optLt v b then some v else some b) none

/-- git-revision rewrite: if the nearest published version is not yet reachable from the root,
aim at it instead of the git revision and remember the extra delta -/
def gitRewrite (target : Nat) (published : Option (Option Nat)) (fromRoot fromTarget : List (Option Nat)) :
    List (Option Nat) × Option (Option Nat × Nat) :=
  match published with
  | none => (fromTarget, none)                     -- not a git revision
  | some pv =>
    if fromRoot.contains pv then (fromTarget, none)
    else
      let ft := fromTarget.filter (fun v => v != some target)
      if ft.contains pv then (ft, none) else (ft ++ [pv], some (pv, target))

/-- all candidate deltas `(from, to)` -/
def candidates (fromRoot fromTarget : List (Option Nat)) : List (Option Nat × Nat) :=
  fromTarget.flatMap (fun d =>
    match d with
    | none => []                                   -- `dest.unwrap()`: the root is never a target
    | some t =>
      ((closestBelow fromRoot d).toList ++ (closestAbove fromRoot d).toList).map (fun c => (c, t)))

/-- the recommendation: a candidate of least diffstat (first among equals), plus the extra delta -/
def pickMin (cost : Option Nat × Nat → Nat) : List (Option Nat × Nat) → Option (Option Nat × Nat)
  | [] => none
  | x :: xs => match pickMin cost xs with
    | none => some x
    | some m => if cost m < cost x then some m else some x

def suggestDelta (hasSources : Option Nat → Bool) (cost : Option Nat × Nat → Nat) (target : Nat)
    (published : Option (Option Nat)) (fails : List Failure) :
    Option ((Option Nat × Nat) × Option (Option Nat × Nat)) :=
  match reachable hasSources fails with
  | none => some ((some target, target), none)
  | some (fr, ft) =>
    let (ft', extra) := gitRewrite target published fr ft
    match pickMin cost (candidates fr ft') with
    | none => none
    | some c => some (c, extra)

/-- `compute_suggested_criteria`: criteria for which `from → to` connects the two reachable sets -/
def suggestedCriteria (fails : List (Nat × Failure)) (from_ : Option Nat) (to : Nat) : List Nat :=
  (fails.filter (fun (_, f) => f.fromTarget.contains (some to) && f.fromRoot.contains from_)).map (·.1)

/-- one suggestion as printed: package index, crate name, delta, criteria, diff size -/
structure Item where
  pkg : Nat
  name : Nat
  from_ : Option Nat
  to : Nat
  criteria : CSet
  cost : Nat
deriving Repr, DecidableEq

/-- `suggestions.dedup_by(same name, same diff and — since fix C17/dedup-drops-criteria — the
same criteria)`: consecutive duplicates are dropped, the first one survives -/
def sameSuggestion (x y : Item) : Bool :=
  x.name = y.name && x.from_ = y.from_ && x.to = y.to && x.criteria = y.criteria

def dedupFrom (prev : Item) : List Item → List Item
  | [] => [prev]
  | y :: rest => if sameSuggestion prev y then dedupFrom prev rest else prev :: dedupFrom y rest

def dedup : List Item → List Item
  | [] => []
  | x :: xs => dedupFrom x xs

end Vet.Sug
