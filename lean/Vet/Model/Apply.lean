/-
`StoreUpdates::apply` followed by commit and a locked re-load, on the model: the store the
next `--locked` run sees.  Kept records keep their relative order (the real code sorts them,
which permutes indices but not the set of records); freshness flags are cleared.
-/
import Vet.Model.Update
namespace Vet

def pick {α : Type} (l : List α) (idx : List Nat) : List α := idx.filterMap (fun i => l[i]?)

def applyTable {α : Type} (t : List (Nat × List α)) (kept : List (Nat × List Nat)) (clear : α → α) :
    List (Nat × List α) :=
  t.map (fun (n, l) => (n, (pick l ((assoc? n kept).getD [])).map clear))

/-- the locked view of the store after applying `u` -/
def applyLocked (s : Store) (u : Updates) : Store :=
  { imports := s.imports.zipIdx.map (fun (f, i) =>
      let k := u.imports.getD i ([], [])
      { audits := applyTable f.audits k.1 (fun a => { a with fresh := false }),
        wildcards := applyTable f.wildcards k.2 (fun a => { a with fresh := false }) }),
    locals := { audits := applyTable s.locals.audits u.audits id, wildcards := s.locals.wildcards },
    trusted := s.trusted,
    publishers := applyTable s.publishers u.publishers (fun a => { a with fresh := false }),
    unpublished := applyTable s.unpublished u.unpublished (fun a => { a with fresh := false }),
    exemptions := u.exemptions,
    policy := s.policy }

def World.applyLocked (w : World) (u : Updates) : World := { w with store := Vet.applyLocked w.store u }

end Vet
