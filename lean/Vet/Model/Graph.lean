/-
Model of `DepGraph::new` (src/resolver.rs:399-622), third-party classification
(src/main.rs:110-145), `Policy::get` (src/format.rs:631-640) and `resolve_requirements`
(src/resolver.rs:890-954).

Package names, versions and package ids are order-preserving ranks (`Nat`).
`--filter-graph` is not modelled.
-/
import Vet.Model.Criteria
namespace Vet

structure PolicyEntry where
  auditAs : Option Bool
  criteria : Option (List Nat)
  devCriteria : Option (List Nat)
  depCriteria : List (Nat × List Nat)      -- dependency *name* → criteria list
deriving Repr, DecidableEq

inductive PkgPolicy
  | unversioned (e : PolicyEntry)
  | versioned (vs : List (Nat × PolicyEntry))
deriving Repr, DecidableEq

abbrev Policy := List (Nat × PkgPolicy)

def assoc? {β : Type} (k : Nat) : List (Nat × β) → Option β
  | [] => none
  | (k', v) :: rest => if k' = k then some v else assoc? k rest

/-- `Policy::get(name, version)` -/
def Policy.get (p : Policy) (name ver : Nat) : Option PolicyEntry :=
  match assoc? name p with
  | none => none
  | some (.unversioned e) => some e
  | some (.versioned vs) => assoc? ver vs

/-- A package as `cargo metadata` reports it. `deps`: (raw index, kind mask) in the order of
`resolve.nodes[i].deps`; mask bit 0 = normal, bit 1 = build, bit 2 = dev. -/
structure RawPkg where
  name : Nat
  ver : Nat
  pid : Nat
  cratesIo : Bool
  deps : List (Nat × Nat)
deriving Repr, DecidableEq

structure Meta where
  pkgs : List RawPkg          -- `resolve.nodes` order
  members : List Nat          -- `workspace_members`, raw indices
deriving Repr, DecidableEq

/-- A node of the dependency graph after `DepGraph::new`. -/
structure PkgNode where
  name : Nat
  ver : Nat
  thirdParty : Bool
  normalBuildDeps : List Nat
  devDeps : List Nat
  reverseDeps : List Nat      -- sorted, no duplicates (`SortedSet`)
  isMember : Bool
  isRoot : Bool
  isDevOnly : Bool
deriving Repr, DecidableEq

structure DepGraph where
  nodes : List PkgNode
  topo : List Nat
deriving Repr, DecidableEq

def keyLe (a b : RawPkg) : Bool :=
  a.name < b.name || (a.name == b.name && (a.ver < b.ver || (a.ver == b.ver && a.pid ≤ b.pid)))

def insertSorted (x : Nat × RawPkg) : List (Nat × RawPkg) → List (Nat × RawPkg)
  | [] => [x]
  | y :: ys => if keyLe x.2 y.2 then x :: y :: ys else y :: insertSorted x ys

/-- `nodes.sort_by((name, version, package_id))`, remembering the raw index. -/
def sortPkgs (ps : List RawPkg) : List (Nat × RawPkg) :=
  (ps.zipIdx.map (fun (p, i) => (i, p))).foldr insertSorted []

def indexOf? (x : Nat) : List Nat → Option Nat
  | [] => none
  | y :: ys => if y = x then some 0 else (indexOf? x ys).map (· + 1)

/-- dependency indices (sorted numbering) of the given kinds, in `deps` order -/
def depsOf (intern : Nat → Nat) (mask : Nat) (p : RawPkg) : List Nat :=
  (p.deps.filter (fun d => d.2 &&& mask != 0)).map (fun d => intern d.1)

structure VisitState where
  visited : List Nat
  topo : List Nat            -- in push order
  redges : List (Nat × Nat)  -- (child, parent) insertions into `reverse_deps`
deriving Repr, DecidableEq

/-- the `for &child in &normal_and_build_deps` loop of `visit_node`, with the recursive call
abstracted as `rec` (keeps `visitNode` structurally recursive on its fuel) -/
def visitChildren (rec : VisitState → Nat → Except Panic VisitState) (parent : Nat) :
    List Nat → VisitState → Except Panic VisitState
  | [], s => .ok s
  | c :: cs, s =>
    match rec s c with
    | .error e => .error e
    | .ok s' => visitChildren rec parent cs { s' with redges := s'.redges ++ [(c, parent)] }

/-- `visit_node`: post-order DFS over normal+build edges. -/
def visitNode (nb : Nat → List Nat) : Nat → VisitState → Nat → Except Panic VisitState
  | 0, _, _ => .error .outOfFuel
  | fuel + 1, st, idx =>
    if st.visited.contains idx then .ok st
    else
      match visitChildren (visitNode nb fuel) idx (nb idx) { st with visited := idx :: st.visited } with
      | .error e => .error e
      | .ok s => .ok { s with topo := s.topo ++ [idx] }

def visitAll (nb : Nat → List Nat) (fuel : Nat) : List Nat → VisitState → Except Panic VisitState
  | [], s => .ok s
  | r :: rs, s =>
    match visitNode nb fuel s r with
    | .error e => .error e
    | .ok s' => visitAll nb fuel rs s'

/-- second pass: each member's dev-deps are visited and get the member as reverse dep -/
def visitDev (nb dev : Nat → List Nat) (fuel : Nat) : List Nat → VisitState → Except Panic VisitState
  | [], s => .ok s
  | m :: ms, s =>
    match visitChildren (visitNode nb fuel) m (dev m) s with
    | .error e => .error e
    | .ok s' => visitDev nb dev fuel ms s'

def insertNat (x : Nat) : List Nat → List Nat
  | [] => [x]
  | y :: ys => if x < y then x :: y :: ys else if x = y then y :: ys else y :: insertNat x ys

def sortDedup (l : List Nat) : List Nat := l.foldr insertNat []

/-- `DepGraph::new` -/
def DepGraph.new (md : Meta) (pol : Policy) : Except Panic DepGraph :=
  let sorted := sortPkgs md.pkgs
  let rawOrder := sorted.map (·.1)
  let intern := fun raw => (indexOf? raw rawOrder).getD 0
  let pk := fun idx => (sorted.getD idx (0, ⟨0, 0, 0, false, []⟩)).2
  let nb := fun idx => depsOf intern 3 (pk idx)
  let dev := fun idx => depsOf intern 4 (pk idx)
  let members := md.members.map intern
  let n := sorted.length
  match visitAll nb (n + 1) members ⟨[], [], []⟩ with
  | .error e => .error e
  | .ok s1 =>
    let isRoot := fun idx => members.contains idx && !(s1.redges.any (fun e => e.1 == idx))
    match visitDev nb dev (n + 1) members s1 with
    | .error e => .error e
    | .ok s2 =>
      let nodes := (List.range n).map (fun idx =>
        let p := pk idx
        let visited := s2.visited.contains idx
        { name := p.name, ver := p.ver,
          thirdParty := ((pol.get p.name p.ver).bind (·.auditAs)).getD false || p.cratesIo,
          normalBuildDeps := if visited then nb idx else [],
          devDeps := if members.contains idx then dev idx else [],
          reverseDeps := sortDedup ((s2.redges.filter (fun e => e.1 == idx)).map (·.2)),
          isMember := members.contains idx,
          isRoot := isRoot idx,
          isDevOnly := !(s1.visited.contains idx) : PkgNode })
      .ok { nodes := nodes, topo := s2.topo }

def setAt (l : List CSet) (i : Nat) (f : CSet → CSet) : List CSet :=
  l.zipIdx.map (fun (x, j) => if j = i then f x else x)

/-- `criteria_from_list` on an optional policy list with a default. -/
def critOrDefault (m : Mapper) (l : Option (List Nat)) (dflt : Nat) : Except Panic CSet :=
  match l with
  | some c => m.fromList c
  | none => m.fromList [dflt]

/-- For each dependency: union the dependency-criteria entry if present, else `dflt`. -/
def pushDeps (g : DepGraph) (m : Mapper) (pol : Option PolicyEntry) (dflt : CSet) :
    List Nat → List CSet → Except Panic (List CSet)
  | [], req => .ok req
  | d :: ds, req =>
    let depName := (g.nodes.getD d ⟨0, 0, false, [], [], [], false, false, false⟩).name
    let ov := pol.bind (fun p => assoc? depName p.depCriteria)
    match ov with
    | some l =>
      match m.fromList l with
      | .error e => .error e
      | .ok c => pushDeps g m pol dflt ds (setAt req d (· ||| c))
    | none => pushDeps g m pol dflt ds (setAt req d (· ||| dflt))

def devLoop (g : DepGraph) (pol : Policy) (m : Mapper) :
    List PkgNode → List CSet → Except Panic (List CSet)
  | [], req => .ok req
  | p :: ps, req =>
    if p.devDeps.isEmpty then devLoop g pol m ps req
    else
      let pe := pol.get p.name p.ver
      match critOrDefault m (pe.bind (·.devCriteria)) 0 with
      | .error e => .error e
      | .ok devC =>
        match pushDeps g m pe devC p.devDeps req with
        | .error e => .error e
        | .ok req' => devLoop g pol m ps req'

def topoLoop (g : DepGraph) (pol : Policy) (m : Mapper) :
    List Nat → List CSet → Except Panic (List CSet)
  | [], req => .ok req
  | i :: is, req =>
    let p := g.nodes.getD i ⟨0, 0, false, [], [], [], false, false, false⟩
    let pe := pol.get p.name p.ver
    let own : Except Panic (List CSet) :=
      match pe.bind (·.criteria) with
      | some c =>
        match m.fromList c with
        | .error e => .error e
        | .ok s => .ok (setAt req i (fun _ => s))
      | none =>
        if p.isRoot then
          match m.fromList [1] with
          | .error e => .error e
          | .ok s => .ok (setAt req i (· ||| s))
        else .ok req
    match own with
    | .error e => .error e
    | .ok req1 =>
      match pushDeps g m pe (req1.getD i 0) p.normalBuildDeps req1 with
      | .error e => .error e
      | .ok req2 => topoLoop g pol m is req2

/-- `resolve_requirements` -/
def resolveRequirements (g : DepGraph) (pol : Policy) (m : Mapper) : Except Panic (List CSet) :=
  match devLoop g pol m g.nodes (List.replicate g.nodes.length 0) with
  | .error e => .error e
  | .ok req => topoLoop g pol m g.topo.reverse req

end Vet
