/-
Model of the crates.io-facing checks (C08): the choice of the published version an
unpublished one is audited as (src/storage.rs:1406-1476), the consistency check of
`audit-as-crates-io` against crates.io metadata (src/main.rs:2921-3043) and the structural
check of crate policies (src/main.rs:3052-3131).  Versions here are plain semver ranks.
-/
import Vet.Model.Store
namespace Vet.Reg

/-- greatest of a list / least of a list -/
def maxOf : List Nat → Option Nat
  | [] => none
  | x :: xs => match maxOf xs with
    | none => some x
    | some m => some (if m < x then x else m)

def minOf : List Nat → Option Nat
  | [] => none
  | x :: xs => match minOf xs with
    | none => some x
    | some m => some (if x < m then x else m)

/-- `max_below.or_else(min_above)`; `none` = the `.expect("There must be at least one version")` -/
def auditedAs (published : List Nat) (v : Nat) : Option Nat :=
  match maxOf (published.filter (fun p => decide (p ≤ v))) with
  | some m => some m
  | none => minOf (published.filter (fun p => decide (v < p)))

/-- the two metadata fields compared (strings interned) -/
structure CrateMeta where
  description : Option Nat
  repository : Option Nat
deriving Repr, DecidableEq

/-- `CratesAPICrateMetadata::consider_as_same` (src/format.rs): the description matches or the
repository matches, each only when crates.io declares it -/
def considerSame (reg loc : CrateMeta) : Bool :=
  (reg.description.isSome && loc.description == reg.description) ||
  (reg.repository.isSome && loc.repository == reg.repository)

/-- a first-party package as the checks see it -/
structure FirstParty where
  name : Nat
  ver : Nat                    -- semver rank
  isGit : Bool                 -- has a git revision
  auditAs : Option Bool        -- policy `audit-as-crates-io`
  published : Option (List Nat) -- versions crates.io lists for that name (`none`: crate unknown)
  metaMatch : Bool             -- crates.io metadata (description / repository) matches the package
deriving Repr, DecidableEq

structure UnpubEntry where
  name : Nat
  version : Nat
  auditedAs : Nat
  fresh : Bool
  stillUnpublished : Bool
deriving Repr, DecidableEq

inductive UnpubResult
  | ok (entries : List UnpubEntry)
  | refused (name : Nat)       -- crate forced to audit-as-crates-io is unknown to crates.io
deriving Repr, DecidableEq

/-- `import_unpublished_entries`: lock entries are always carried over; for every non-git
package forced to be audited as crates.io whose exact version is not published, a fresh entry
for the chosen version is appended and existing entries for that version are marked. -/
def importUnpublished (lock : List UnpubEntry) : List FirstParty → UnpubResult
  | [] => .ok lock
  | p :: rest =>
    if p.auditAs != some true || p.isGit then importUnpublished lock rest
    else match p.published with
      | none => .refused p.name
      | some [] => .refused p.name
      | some vs =>
        match auditedAs vs p.ver with
        | none => .refused p.name
        | some a =>
          if a = p.ver then importUnpublished lock rest
          else
            let lock' := lock.map (fun e =>
              if e.name = p.name && e.version = p.ver then { e with stillUnpublished := true } else e)
            importUnpublished (lock' ++ [⟨p.name, p.ver, a, true, true⟩]) rest

inductive AuditAsError
  | unusedAuditAs (name : Nat)
  | needsAuditAs (name ver : Nat)
  | shouldntBeAuditAs (name ver : Nat)
deriving Repr, DecidableEq

/-- `check_audit_as_crates_io` (with network): `policyNames` = names (with optional version) of
policy entries that set `audit-as-crates-io`. -/
def checkAuditAs (policyEntries : List (Nat × Option Nat)) (pkgs : List FirstParty) : List AuditAsError :=
  let unused := policyEntries.filter (fun (n, v) =>
    !pkgs.any (fun p => p.name == n && (v == none || v == some p.ver)))
  (unused.map (fun (n, _) => .unusedAuditAs n)) ++
  (pkgs.filterMap (fun p =>
    if p.auditAs == some false then none
    else
      let m := p.published.isSome && p.metaMatch
      if m && p.auditAs == none then some (.needsAuditAs p.name p.ver) else none)) ++
  (pkgs.filterMap (fun p =>
    if p.auditAs == some false then none
    else
      let m := p.published.isSome && p.metaMatch
      if !m && p.auditAs == some true then some (.shouldntBeAuditAs p.name p.ver) else none))

end Vet.Reg
