/-
Line protocol shared with the Rust harness (harness/wire.rs): a request is a keyword
followed by natural numbers; lists are length-prefixed.  Anything that does not parse is
answered `bad-case` — never defaulted.
-/
import Vet.Model.Update
import Vet.Model.Imports
import Vet.Model.Validate
import Vet.Model.Aggregate
import Vet.Model.Registry
import Vet.Model.Suggest
import Vet.Model.Unpack
import Vet.Model.Serde
namespace Vet.Wire
open Vet

abbrev P := StateT (List Nat) Option

def nat : P Nat := fun s => match s with
  | [] => none
  | x :: xs => some (x, xs)

def bool : P Bool := do
  let x ← nat
  if x = 0 then pure false else if x = 1 then pure true else failure

def many {α} (p : P α) : Nat → P (List α)
  | 0 => pure []
  | n + 1 => do
    let x ← p
    let xs ← many p n
    pure (x :: xs)

def list {α} (p : P α) : P (List α) := do
  let n ← nat
  many p n

def optNat : P (Option Nat) := do
  let x ← nat
  if x = 0 then pure none else pure (some (x - 1))

def optList : P (Option (List Nat)) := do
  let x ← nat
  if x = 0 then pure none else if x = 1 then some <$> list nat else failure

def optBool : P (Option Bool) := do
  let x ← nat
  if x = 0 then pure none else if x = 1 then pure (some false) else if x = 2 then pure (some true) else failure

def custom : P CustomCrit := do
  let c ← nat
  let i ← list nat
  pure ⟨c, i⟩

def pair {α β} (a : P α) (b : P β) : P (α × β) := do
  let x ← a
  let y ← b
  pure (x, y)

def rawPkg : P RawPkg := do
  let name ← nat
  let ver ← nat
  let pid ← nat
  let io ← bool
  let deps ← list (pair nat nat)
  pure ⟨name, ver, pid, io, deps⟩

def metaP : P Meta := do
  let pk ← list rawPkg
  let mem ← list nat
  pure ⟨pk, mem⟩

def auditKind : P AuditKind := do
  let t ← nat
  match t with
  | 0 => .full <$> nat
  | 1 => do
    let f ← nat
    let t ← nat
    pure (.delta f t)
  | 2 => .violation <$> list nat
  | _ => failure

def audit : P Audit := do
  let k ← auditKind
  let c ← list nat
  let i ← bool
  let f ← bool
  pure ⟨k, c, i, f⟩

def wildcard : P Wildcard := do
  let u ← nat
  let s ← nat
  let e ← nat
  let c ← list nat
  let f ← bool
  pure ⟨u, s, e, c, f⟩

def trusted : P Trusted := do
  let u ← nat
  let s ← nat
  let e ← nat
  let c ← list nat
  pure ⟨u, s, e, c⟩

def publisher : P Publisher := do
  let v ← nat
  let u ← nat
  let d ← nat
  let f ← bool
  pure ⟨v, u, d, f⟩

def unpub : P Unpub := do
  let v ← nat
  let a ← nat
  let f ← bool
  pure ⟨v, a, f⟩

def exemption : P Exemption := do
  let v ← nat
  let c ← list nat
  let s ← bool
  pure ⟨v, c, s⟩

def mapOf {α} (p : P α) : P (List (Nat × List α)) := list (pair nat (list p))

def afile : P AFile := do
  let a ← mapOf audit
  let w ← mapOf wildcard
  pure ⟨a, w⟩

def policyEntry : P PolicyEntry := do
  let a ← optBool
  let c ← optList
  let d ← optList
  let dc ← list (pair nat (list nat))
  pure ⟨a, c, d, dc⟩

def pkgPolicy : P PkgPolicy := do
  let t ← nat
  match t with
  | 0 => .unversioned <$> policyEntry
  | 1 => .versioned <$> list (pair nat policyEntry)
  | _ => failure

def store : P Store := do
  let imps ← list afile
  let loc ← afile
  let tr ← mapOf trusted
  let pubs ← mapOf publisher
  let un ← mapOf unpub
  let ex ← mapOf exemption
  let pol ← list (pair nat pkgPolicy)
  pure ⟨imps, loc, tr, pubs, un, ex, pol⟩

def world : P World := do
  let t ← list custom
  let m ← metaP
  let s ← store
  pure ⟨t, m, s⟩

def mode : P Mode := do
  let t ← nat
  match t with
  | 0 => pure .preferExemptions
  | 1 => pure .preferFreshImports
  | 2 => pure .regenerateExemptions
  | _ => failure

/-- run a parser on the whole token list; all input must be consumed -/
def run {α} (p : P α) (toks : List Nat) : Option α :=
  match p toks with
  | some (x, []) => some x
  | _ => none

/-! ### printing -/

def optKeyS (o : Option Nat) : List Nat := [optKey o]

def originToks : Origin → List Nat
  | .storedLocal i imp => [0, i, if imp then 1 else 0, 0]
  | .imported i j => [1, i, j, 0]
  | .wildcard imp i p => [2, optKey imp, i, p]
  | .trusted p => [3, p, 0, 0]
  | .exemption i => [4, i, 0, 0]
  | .unpublished i => [5, i, 0, 0]
  | .freshExemption v => [6, v, 0, 0]

def listToks (l : List Nat) : List Nat := l.length :: l

def pathToks (p : List Origin) : List Nat := p.length :: p.flatMap originToks

def b2n (b : Bool) : Nat := if b then 1 else 0

def show_ (l : List Nat) : String := " ".intercalate (l.map toString)

def panicLine (p : Panic) : String := p.toString

def kindToks : AuditKind → List Nat
  | .full v => [0, v]
  | .delta f t => [1, f, t]
  | .violation m => 2 :: listToks m

def auditToks (a : Audit) : List Nat :=
  kindToks a.kind ++ listToks a.criteria ++ [b2n a.importable]

def conflictToks : Conflict → List Nat
  | .exemption vsrc viol ex =>
    [0, optKey vsrc] ++ auditToks viol ++ [ex.version] ++ listToks ex.criteria ++ [b2n ex.suggest]
  | .audit vsrc viol asrc a =>
    [1, optKey vsrc] ++ auditToks viol ++ [optKey asrc] ++ auditToks a

def edgeToks (src : Option Nat) (e : Edge) : List Nat :=
  [optKey src, optKey e.dst, e.crit] ++ originToks e.origin ++ [e.fresh]

def sortedKeys (ks : List (Option Nat)) : List (Option Nat) :=
  (sortDedup (ks.map optKey)).map (fun k => if k = 0 then none else some (k - 1))

/-- both adjacency maps in `BTreeMap` order, then push order -/
def graphToks (g : Graph) : List Nat :=
  let fk := sortedKeys (g.edges.map (·.src))
  let bk := sortedKeys (g.edges.map (·.dst))
  let f := fk.flatMap (fun k => (g.forward k).map (edgeToks k))
  let b := bk.flatMap (fun k => (g.backward k).map (edgeToks k))
  [f.length] ++ f.flatMap id ++ [b.length] ++ b.flatMap id

def outcomeToks : SearchOutcome → List Nat
  | .ok p => 0 :: pathToks p
  | .fail r t => [1] ++ listToks (sortDedup (r.map optKey)) ++ listToks (sortDedup (t.map optKey))
  | .panic _ => [2]

def nodeToks (p : PkgNode) : List Nat :=
  [p.name, p.ver, b2n p.thirdParty, b2n p.isMember, b2n p.isRoot, b2n p.isDevOnly]
  ++ listToks p.normalBuildDeps ++ listToks p.devDeps ++ listToks p.reverseDeps

def depGraphToks (g : DepGraph) : List Nat :=
  [g.nodes.length] ++ g.nodes.flatMap nodeToks ++ listToks g.topo

def conclusionToks : Conclusion → List Nat
  | .success a b c => [0] ++ listToks a ++ listToks b ++ listToks c
  | .failViolation vs => [1, vs.length] ++ vs.flatMap (fun (i, cs) => [i, cs.length] ++ cs.flatMap conflictToks)
  | .failVet fs => [2, fs.length] ++ fs.flatMap (fun (i, c) => [i, c])

def updateMode : P UpdateMode := do
  let m ← mode
  let a ← bool
  let b ← bool
  let c ← bool
  pure ⟨m, a, b, c⟩

/-- default mode and per-name overrides -/
def modeTable : P (Nat → UpdateMode) := do
  let d ← updateMode
  let ov ← list (pair nat updateMode)
  pure (fun n => (assoc? n ov).getD d)

def idxMapToks (t : List (Nat × List Nat)) : List Nat :=
  t.length :: t.flatMap (fun (n, l) => n :: listToks l)

def exemptionToks (x : Exemption) : List Nat := [x.version] ++ listToks x.criteria ++ [b2n x.suggest]

def updatesToks (u : Updates) : List Nat :=
  idxMapToks u.audits
  ++ [u.imports.length] ++ u.imports.flatMap (fun (a, w) => idxMapToks a ++ idxMapToks w)
  ++ idxMapToks u.publishers ++ idxMapToks u.unpublished
  ++ [u.exemptions.length] ++ u.exemptions.flatMap (fun (n, l) => [n, l.length] ++ l.flatMap exemptionToks)

def peerFile : P PeerFile := do
  let t ← list custom
  let d ← list (pair nat nat)
  let a ← list (pair nat (list (pair bool audit)))
  let w ← list (pair nat (list (pair bool wildcard)))
  let c ← list (pair nat (list nat))
  pure ⟨t, d, a, w, c⟩

def importCfg : P ImportCfg := do
  let s ← list peerFile
  let e ← list nat
  pure ⟨s, e⟩

def auditFullToks (a : Audit) : List Nat := auditToks a ++ [b2n a.fresh]

def wildcardToks (w : Wildcard) : List Nat :=
  [w.user, w.start, w.stop] ++ listToks w.criteria ++ [b2n w.fresh]

def afileToks (f : AFile) : List Nat :=
  [f.audits.length] ++ f.audits.flatMap (fun (n, l) => [n, l.length] ++ l.flatMap (fun a => let t := auditFullToks a; t.length :: t))
  ++ [f.wildcards.length] ++ f.wildcards.flatMap (fun (n, l) => [n, l.length] ++ l.flatMap (fun a => let t := wildcardToks a; t.length :: t))

def aggCrit : P Agg.Crit := do
  let n ← nat
  let d ← nat
  let u ← nat
  let i ← list nat
  let f ← list nat
  pure ⟨n, d, u, i, f⟩

def aggEntry : P Agg.Entry := do
  let c ← nat
  let i ← bool
  let f ← list nat
  pure ⟨c, i, f⟩

def aggSource : P Agg.Source := do
  let u ← nat
  let c ← list aggCrit
  let a ← list (pair nat (list aggEntry))
  let w ← list (pair nat (list aggEntry))
  let t ← list (pair nat (list aggEntry))
  pure ⟨u, c, a, w, t⟩

def aggTableToks (t : List (Nat × List Agg.Entry)) : List Nat :=
  t.length :: t.flatMap (fun (k, l) => [k, l.length] ++ l.flatMap (fun e => [e.content, b2n e.importable] ++ listToks e.from_))

def aggResultToks (r : Agg.Result) : List Nat :=
  [r.criteria.length] ++ r.criteria.flatMap (fun c => [c.name, c.desc, c.descUrl] ++ listToks c.implies ++ listToks c.from_)
  ++ aggTableToks r.audits ++ aggTableToks r.wildcards ++ aggTableToks r.trusted

def optNatList : P (Option (List Nat)) := do
  let x ← nat
  if x = 0 then pure none else some <$> list nat

def firstParty : P Reg.FirstParty := do
  let n ← nat
  let v ← nat
  let g ← bool
  let a ← optBool
  let p ← optNatList
  let m ← bool
  pure ⟨n, v, g, a, p, m⟩

def unpubEntry : P Reg.UnpubEntry := do
  let n ← nat
  let v ← nat
  let a ← nat
  let f ← bool
  let s ← bool
  pure ⟨n, v, a, f, s⟩

def optVerList : P (List (Option Nat)) := do
  let l ← list nat
  pure (l.map (fun k => if k = 0 then none else some (k - 1)))

def sugFailure : P Sug.Failure := do
  let r ← optVerList
  let t ← optVerList
  pure ⟨r, t⟩

def upNode : P Unpack.Node := do
  let t ← nat
  match t with
  | 0 => pure .dir
  | 1 => Unpack.Node.file <$> nat
  | 2 => Unpack.Node.symlink <$> list nat
  | _ => failure

def upComp : P Unpack.Comp := do
  let t ← nat
  match t with
  | 0 => Unpack.Comp.normal <$> nat
  | 1 => pure .parent
  | 2 => pure .root
  | _ => failure

def upKind : P Unpack.EntryKind := do
  let t ← nat
  match t with
  | 0 => Unpack.EntryKind.file <$> nat
  | 1 => pure .dir
  | 2 => Unpack.EntryKind.symlink <$> list nat
  | _ => failure

def upEntry : P Unpack.Entry := do
  let p ← list upComp
  let k ← upKind
  pure ⟨p, k⟩

def insertPath (x : List Nat × Unpack.Node) : List (List Nat × Unpack.Node) → List (List Nat × Unpack.Node)
  | [] => [x]
  | y :: ys => if lexLt x.1 y.1 then x :: y :: ys else y :: insertPath x ys

def upNodeToks : Unpack.Node → List Nat
  | .dir => [0]
  | .file c => [1, c]
  | .symlink t => 2 :: listToks t

def fsToks (fs : Unpack.FS) : List Nat :=
  let sorted := fs.foldr insertPath []
  sorted.length :: sorted.flatMap (fun (p, n) => listToks p ++ upNodeToks n)

/-- shape of a string_or_vec value: `0 s` bare string, `1 k s…` array -/
def strOrVecToks (v : Serde.Val) : List Nat :=
  match v with
  | .str s => [0, s]
  | .arr items => [1, items.length] ++ items.map (fun i => match i with | .str s => s | _ => 99999)
  | _ => [2]

def resultToks : PkgResult → List Nat
  | .firstParty => [0]
  | .conflict _ => [0]
  | .searched rs => [2, rs.length] ++ rs.flatMap outcomeToks

end Vet.Wire
