/-
Model of `check_crate_policies` (src/main.rs:3052-3131): the structural check of the `[policy]`
table against the packages of the graph that an unlocked `cargo vet` runs before anything else.
Names and versions are ranks.
-/
namespace Vet.Pol

/-- one `[policy.<name>]` / `[policy."<name>:<version>"]` entry as the check sees it -/
structure Entry where
  name : Nat
  version : Option Nat
  hasDepCriteria : Bool
deriving Repr, DecidableEq

structure Pkg where
  name : Nat
  version : Nat
deriving Repr, DecidableEq

inductive Error
  | needsVersion (name version : Nat)          -- a versioned policy for this used version is missing
  | unused (name : Nat) (version : Option Nat)  -- the policy matches no package
deriving Repr, DecidableEq

/-- `thirdParty n`: some package named `n` is third-party (`foreign_packages_strict`) -/
def check (entries : List Entry) (pkgs : List Pkg) (thirdParty : Nat → Bool) : List Error :=
  let depNames := (entries.filter (·.hasDepCriteria)).map (·.name)
  let needs := pkgs.filterMap (fun p =>
    if thirdParty p.name && depNames.contains p.name &&
       !(entries.any (fun e => e.name == p.name && e.version == some p.version))
    then some (Error.needsVersion p.name p.version) else none)
  let unusedNames := ((entries.map (·.name)).eraseDups.filter (fun n => !(pkgs.any (·.name == n)))).map
    (fun n => Error.unused n none)
  let unusedVersions := (entries.filterMap (fun e =>
    match e.version with
    | some v => if pkgs.any (fun p => p.name == e.name && p.version == v) then none else some (Error.unused e.name (some v))
    | none => none))
  needs ++ unusedNames ++ unusedVersions

/-- The loop as the code runs it: the set of versioned policy keys is *consumed* — the first
package with a given (name, version) removes the key, so a second package with the same name and
version (another source) no longer finds it. -/
def loop (depNames : List Nat) (thirdParty : Nat → Bool) :
    List Pkg → List (Nat × Nat) → List Error → List (Nat × Nat) × List Error
  | [], remaining, errs => (remaining, errs)
  | p :: rest, remaining, errs =>
    let found := remaining.contains (p.name, p.version)
    let remaining' := remaining.filter (· != (p.name, p.version))
    let errs' := if thirdParty p.name && depNames.contains p.name && !found
                 then errs ++ [Error.needsVersion p.name p.version] else errs
    loop depNames thirdParty rest remaining' errs'

/-- `check_crate_policies` as implemented -/
def checkImpl (entries : List Entry) (pkgs : List Pkg) (thirdParty : Nat → Bool) : List Error :=
  let depNames := (entries.filter (·.hasDepCriteria)).map (·.name)
  let versioned := (entries.filterMap (fun e => e.version.map (fun v => (e.name, v)))).eraseDups
  let (remaining, needs) := loop depNames thirdParty pkgs versioned []
  let unusedNames := ((entries.map (·.name)).eraseDups.filter (fun n => !(pkgs.any (·.name == n)))).map
    (fun n => Error.unused n none)
  needs ++ unusedNames ++ remaining.map (fun (n, v) => Error.unused n (some v))

end Vet.Pol
