/-
Model of `resolve` / `resolve_audits` (src/resolver.rs:864-1048).
-/
import Vet.Model.Search
namespace Vet

structure World where
  table : Table
  md : Meta
  store : Store
deriving Repr, DecidableEq

/-- per third-party package: the search result for every criterion index -/
inductive PkgResult
  | firstParty
  | conflict (cs : List Conflict)
  | searched (results : List SearchOutcome)
deriving Repr, DecidableEq

inductive Conclusion
  | success (withExemptions partially fully : List Nat)
  | failViolation (vs : List (Nat × List Conflict))
  | failVet (failures : List (Nat × CSet))
deriving Repr, DecidableEq

def Origin.isUnpublished : Origin → Bool
  | .unpublished _ => true
  | _ => false

structure Acc where
  violations : List (Nat × List Conflict) := []
  failures : List (Nat × CSet) := []
  withEx : List Nat := []
  partially : List Nat := []
  fully : List Nat := []
  results : List PkgResult := []
deriving Repr, DecidableEq

/-- the per-package classification loop (resolver.rs:991-1026) -/
def classify (results : List SearchOutcome) (required : List Nat) : Bool × Bool × CSet :=
  required.foldl (fun (acc : Bool × Bool × CSet) c =>
    match results.getD c (.panic .other) with
    | .ok path =>
      (acc.1 || path.any Origin.isExemption,
       acc.2.1 || path.all (fun o => o.isExemption || o.isUnpublished),
       acc.2.2)
    | _ => (acc.1, acc.2.1, acc.2.2 ||| (1 <<< c))) (false, false, 0)

def firstPanic : List SearchOutcome → Option Panic
  | [] => none
  | .panic p :: _ => some p
  | _ :: rest => firstPanic rest

def resolveLoop (s : Store) (m : Mapper) : List (Nat × PkgNode × CSet) → Acc → Except Panic Acc
  | [], acc => .ok acc
  | (idx, p, req) :: rest, acc =>
    if !p.thirdParty then resolveLoop s m rest { acc with results := acc.results ++ [.firstParty] }
    else
      match build s m p.name with
      | .error e => .error e
      | .ok (.conflicts cs) =>
        resolveLoop s m rest { acc with violations := acc.violations ++ [(idx, cs)],
                                        results := acc.results ++ [.conflict cs] }
      | .ok (.graph g) =>
        let results := (List.range m.n).map (fun c => search g c p.ver .preferExemptions)
        match firstPanic results with
        | some e => .error e
        | none =>
          let (needed, direct, failures) := classify results (CSet.indices m.n req)
          let acc := if failures != 0 then { acc with failures := acc.failures ++ [(idx, failures)] } else acc
          let acc :=
            if !needed then { acc with fully := acc.fully ++ [idx] }
            else if direct then { acc with withEx := acc.withEx ++ [idx] }
            else { acc with partially := acc.partially ++ [idx] }
          resolveLoop s m rest { acc with results := acc.results ++ [.searched results] }

structure Report where
  graph : DepGraph
  mapper : Mapper
  requirements : List CSet
  results : List PkgResult
  conclusion : Conclusion
deriving Repr, DecidableEq

/-- `resolve(metadata, None, store)` -/
def resolve (w : World) : Except Panic Report :=
  match DepGraph.new w.md w.store.policy with
  | .error e => .error e
  | .ok g =>
    match Mapper.new w.table with
    | .error e => .error e
    | .ok m =>
      match resolveRequirements g w.store.policy m with
      | .error e => .error e
      | .ok req =>
        match resolveLoop w.store m ((List.range g.nodes.length).zip (g.nodes.zip req)) {} with
        | .error e => .error e
        | .ok acc =>
          let conclusion :=
            if !acc.violations.isEmpty then .failViolation acc.violations
            else if !acc.failures.isEmpty then .failVet acc.failures
            else .success acc.withEx acc.partially acc.fully
          .ok { graph := g, mapper := m, requirements := req, results := acc.results,
                conclusion := conclusion }

end Vet
