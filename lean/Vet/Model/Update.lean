/-
Model of `resolve_package_required_entries`, `should_prune_imports` and `get_store_updates`
(src/resolver.rs:2729-3240).  The final `sort()` calls are not modelled: the outputs are
compared as the lists of kept indices per table (a pure filter of the input order).
-/
import Vet.Model.Resolve
namespace Vet

inductive ReqEntry
  | localAudit (idx : Nat)
  | audit (imp idx : Nat)
  | wildcard (imp idx : Nat)
  | publisher (idx : Nat)
  | exemption (idx : Nat)
  | unpublished (idx : Nat)
  | freshExemption (v : Nat)
deriving Repr, DecidableEq

structure UpdateMode where
  search : Mode
  pruneExemptions : Bool
  pruneNonImportable : Bool
  pruneImports : Bool
deriving Repr, DecidableEq

abbrev Required := List (ReqEntry × CSet)

/-- `required_entries.entry(e).or_insert(none).set_criteria(c)` -/
def addEntry (r : Required) (e : ReqEntry) (c : Nat) : Required :=
  match r with
  | [] => [(e, 1 <<< c)]
  | (e', s) :: rest => if e' = e then (e', s ||| (1 <<< c)) :: rest else (e', s) :: addEntry rest e c

def Required.get? (r : Required) (e : ReqEntry) : Option CSet :=
  match r with
  | [] => none
  | (e', s) :: rest => if e' = e then some s else Required.get? rest e

def Required.has (r : Required) (e : ReqEntry) : Bool := (r.get? e).isSome

/-- the entries one origin on a chosen path stands for -/
def originEntries : Origin → List ReqEntry
  | .exemption i => [.exemption i]
  | .freshExemption v => [.freshExemption v]
  | .imported i j => [.audit i j]
  | .wildcard (some i) j p => [.wildcard i j, .publisher p]
  | .wildcard none _ p => [.publisher p]
  | .trusted p => [.publisher p]
  | .unpublished i => [.unpublished i]
  | .storedLocal i _ => [.localAudit i]

def addPath (r : Required) (path : List Origin) (c : Nat) : Required :=
  path.foldl (fun r o => (originEntries o).foldl (fun r e => addEntry r e c) r) r

/-- searches for the minimal required criteria of one package; `none` = failed to vet -/
def requiredForPkg (g : Graph) (m : Mapper) (ver : Nat) (mode : Mode) :
    List Nat → Required → Except Panic (Option Required)
  | [], r => .ok (some r)
  | c :: cs, r =>
    match search g c ver mode with
    | .panic p => .error p
    | .fail _ _ => .ok none
    | .ok path => requiredForPkg g m ver mode cs (addPath r path c)

def requiredForPkgs (g : Graph) (m : Mapper) (mode : Mode) :
    List (Nat × CSet) → Required → Except Panic (Option Required)
  | [], r => .ok (some r)
  | (ver, req) :: rest, r =>
    match requiredForPkg g m ver mode (m.minimal req) r with
    | .error e => .error e
    | .ok none => .ok none
    | .ok (some r') => requiredForPkgs g m mode rest r'

/-- `resolve_package_required_entries` -/
def requiredEntries (dg : DepGraph) (m : Mapper) (reqs : List CSet) (s : Store) (name : Nat)
    (mode : Mode) : Except Panic (Option Required) :=
  let pkgs := ((dg.nodes.zip reqs).filter (fun (p, _) => p.name == name && p.thirdParty)).map
    (fun (p, r) => (p.ver, r))
  if pkgs.isEmpty then .ok (some [])
  else match build s m name with
    | .error e => .error e
    | .ok (.conflicts _) => .ok none
    | .ok (.graph g) => requiredForPkgs g m mode pkgs []

def isViolation (a : Audit) : Bool :=
  match a.kind with
  | .violation _ => true
  | _ => false

/-- `should_prune_imports` -/
def shouldPruneImports (s : Store) (req : Option Required) (mode : UpdateMode) (name : Nat) : Bool :=
  if mode.pruneImports then true
  else match req with
    | none => false
    | some r => r.any (fun (e, _) =>
        match e with
        | .audit i j => ((getL name ((s.imports.getD i ⟨[], []⟩).audits)).getD j ⟨.full 0, [], true, false⟩).fresh
        | .wildcard i j => ((getL name ((s.imports.getD i ⟨[], []⟩).wildcards)).getD j ⟨0, 0, 0, [], false⟩).fresh
        | .publisher p => ((getL name s.publishers).getD p ⟨0, 0, 0, false⟩).fresh
        | _ => false)

/-- kept indices of a list under a predicate on (index, element) -/
def keepIdx {α : Type} (l : List α) (f : Nat → α → Bool) : List Nat :=
  (l.zipIdx.filter (fun (a, i) => f i a)).map (·.2)

structure Updates where
  audits : List (Nat × List Nat)                                  -- local audits kept, per name
  imports : List (List (Nat × List Nat) × List (Nat × List Nat))  -- per import: audits / wildcards kept
  publishers : List (Nat × List Nat)
  unpublished : List (Nat × List Nat)
  exemptions : List (Nat × List Exemption)
deriving Repr, DecidableEq

/-- names of the graph's packages in node order without repetition, each with its entries -/
def allRequired (dg : DepGraph) (m : Mapper) (reqs : List CSet) (s : Store) (modeOf : Nat → UpdateMode) :
    List Nat → List (Nat × Option Required) → Except Panic (List (Nat × Option Required))
  | [], acc => .ok acc
  | n :: ns, acc =>
    if acc.any (fun e => e.1 == n) then allRequired dg m reqs s modeOf ns acc
    else match requiredEntries dg m reqs s n (modeOf n).search with
      | .error e => .error e
      | .ok r => allRequired dg m reqs s modeOf ns (acc ++ [(n, r)])

/-- one existing exemption under the update (resolver.rs:3143-3195): possibly an extra entry
for criteria beyond a `suggest = false` exemption, then the (narrowed) entry itself -/
def updateExemption (m : Mapper) (prune : Bool) (req : Option Required) (idx : Nat) (x : Exemption) :
    Except Panic (List Exemption) :=
  match m.fromList x.criteria with
  | .error e => .error e
  | .ok original =>
    let useful0 := match req with
      | some r => (r.get? (.exemption idx)).getD 0
      | none => original
    let useful := if prune then useful0 else useful0 ||| original
    if useful = 0 then .ok []
    else if !x.suggest && !(CSet.containsSet original useful) then
      .ok [⟨x.version, m.minimal (CSet.clear m.n useful original), true⟩, ⟨x.version, m.minimal original, x.suggest⟩]
    else .ok [⟨x.version, m.minimal useful, x.suggest⟩]

def updateExemptions (m : Mapper) (prune : Bool) (req : Option Required) :
    List (Exemption × Nat) → Except Panic (List Exemption)
  | [] => .ok []
  | (x, i) :: rest =>
    match updateExemption m prune req i x with
    | .error e => .error e
    | .ok a =>
      match updateExemptions m prune req rest with
      | .error e => .error e
      | .ok b => .ok (a ++ b)

def exemptionTable (m : Mapper) (modeOf : Nat → UpdateMode) (reqOf : Nat → Option Required) :
    List (Nat × List Exemption) → Except Panic (List (Nat × List Exemption))
  | [] => .ok []
  | (n, xs) :: rest =>
    match updateExemptions m (modeOf n).pruneExemptions (reqOf n) xs.zipIdx with
    | .error e => .error e
    | .ok l =>
      match exemptionTable m modeOf reqOf rest with
      | .error e => .error e
      | .ok t => .ok (if l.isEmpty then t else (n, l) :: t)

/-- new exemptions from `FreshExemption` required entries -/
def freshExemptions (m : Mapper) (r : Required) : List Exemption :=
  r.filterMap (fun (e, c) =>
    match e with
    | .freshExemption v => some ⟨v, m.minimal c, true⟩
    | _ => none)

def addFresh (t : List (Nat × List Exemption)) (n : Nat) (l : List Exemption) : List (Nat × List Exemption) :=
  if l.isEmpty then t
  else match t with
    | [] => [(n, l)]
    | (n', l') :: rest => if n' = n then (n', l' ++ l) :: rest else (n', l') :: addFresh rest n l

/-- `get_store_updates` -/
def getStoreUpdates (w : World) (modeOf : Nat → UpdateMode) : Except Panic Updates :=
  match DepGraph.new w.md w.store.policy with
  | .error e => .error e
  | .ok dg =>
    match Mapper.new w.table with
    | .error e => .error e
    | .ok m =>
      match resolveRequirements dg w.store.policy m with
      | .error e => .error e
      | .ok reqs =>
        match allRequired dg m reqs w.store modeOf (dg.nodes.map (·.name)) [] with
        | .error e => .error e
        | .ok required =>
          let s := w.store
          let lookup : Nat → Option (Option Required) := fun n => assoc? n required
          -- packages not in the graph require nothing (`no_required_entries`)
          let reqOf : Nat → Option Required := fun n => (lookup n).getD (some [])
          let audits := s.locals.audits.map (fun (n, l) =>
            match lookup n with
            | some (some r) =>
              if (modeOf n).pruneNonImportable then
                (n, keepIdx l (fun i a => a.importable || isViolation a || r.has (.localAudit i)))
              else (n, keepIdx l (fun _ _ => true))
            | _ => (n, keepIdx l (fun _ _ => true)))
          let imports := s.imports.zipIdx.map (fun (f, ii) =>
            (f.audits.map (fun (n, l) =>
                let prune := shouldPruneImports s (reqOf n) (modeOf n) n
                (n, keepIdx l (fun i a =>
                  if !prune && !a.fresh then true
                  else if isViolation a then (lookup n).isSome
                  else match reqOf n with
                    | some r => r.has (.audit ii i)
                    | none => !a.fresh))),
             f.wildcards.map (fun (n, l) =>
                let prune := shouldPruneImports s (reqOf n) (modeOf n) n
                (n, keepIdx l (fun i a =>
                  if !prune && !a.fresh then true
                  else match reqOf n with
                    | some r => r.has (.wildcard ii i)
                    | none => !a.fresh)))))
          let publishers := s.publishers.map (fun (n, l) =>
            let prune := shouldPruneImports s (reqOf n) (modeOf n) n
            (n, keepIdx l (fun i a =>
              if !prune && !a.fresh then true
              else match reqOf n with
                | some r => r.has (.publisher i)
                | none => !a.fresh)))
          let unpublished := s.unpublished.map (fun (n, l) =>
            let prune := (modeOf n).pruneExemptions
            (n, keepIdx l (fun i a =>
              if !prune && !a.fresh then true
              else match reqOf n with
                | some r => r.has (.unpublished i)
                | none => !a.fresh)))
          match exemptionTable m modeOf reqOf s.exemptions with
          | .error e => .error e
          | .ok ex0 =>
            let ex := required.foldl (fun t (n, r) =>
              match r with
              | some r => addFresh t n (freshExemptions m r)
              | none => t) ex0
            .ok { audits := audits, imports := imports, publishers := publishers,
                  unpublished := unpublished, exemptions := ex }

end Vet
