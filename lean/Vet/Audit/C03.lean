import Vet.Props.C03Topo
#print axioms Vet.C03_depgraph_total
#print axioms Vet.C03_topo_valid
#print axioms Vet.C03_third_party
#print axioms Vet.C03_root_iff
