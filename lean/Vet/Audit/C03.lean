import Vet.Props.C03
#print axioms Vet.C03_demand
#print axioms Vet.C03_depgraph_total
#print axioms Vet.C03_topo_valid
#print axioms Vet.C03_third_party
#print axioms Vet.C03_root_iff
#print axioms Vet.C03_requirements_solve
#print axioms Vet.C03_unlisted_empty
#print axioms Vet.C03_demand_unique
#print axioms Vet.C03_least
#print axioms Vet.C03_requirements_length
