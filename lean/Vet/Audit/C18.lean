import Vet.Props.C18
#print axioms Vet.Lock.C18_mutex
#print axioms Vet.Lock.C18_no_torn_read
#print axioms Vet.Lock.C18_loaded_whole
#print axioms Vet.Lock.C18_serial
#print axioms Vet.Lock.C18_reads_latest
