import Vet.Props.Resolve
import Vet.Props.C02Report
#print axioms Vet.C02_no_false_failure
#print axioms Vet.C02_failures_exact
#print axioms Vet.C02_failures_sorted
#print axioms Vet.C02_violation_priority
#print axioms Vet.search_complete
#print axioms Vet.search_fuel_enough
#print axioms Vet.build_complete
#print axioms Vet.C02_exit_status
#print axioms Vet.C02_report_lines
#print axioms Vet.C02_report_complete
#print axioms Vet.C02_human_same_lines
