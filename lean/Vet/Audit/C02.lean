import Vet.Props.Search
#print axioms Vet.search_complete
#print axioms Vet.search_fuel_enough
