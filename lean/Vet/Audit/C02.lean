import Vet.Props.Search
import Vet.Props.Build
#print axioms Vet.search_complete
#print axioms Vet.search_fuel_enough
#print axioms Vet.build_complete
