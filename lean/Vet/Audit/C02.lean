import Vet.Props.Resolve
#print axioms Vet.C02_no_false_failure
#print axioms Vet.C02_failures_exact
#print axioms Vet.C02_failures_sorted
#print axioms Vet.C02_violation_priority
#print axioms Vet.search_complete
#print axioms Vet.search_fuel_enough
#print axioms Vet.build_complete
