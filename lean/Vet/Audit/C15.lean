import Vet.Props.C15
#print axioms Vet.C15_checked_sites
#print axioms Vet.C15_refused_exemption
#print axioms Vet.C15_refused_audit
#print axioms Vet.C15_refused_implies
#print axioms Vet.C15_no_panic_partial
#print axioms Vet.C15_counterexample_trusted
#print axioms Vet.C15_counterexample_lock
#print axioms Vet.C15_counterexample_cycle
#print axioms Vet.C15_counterexample_builtin_redefined
#print axioms Vet.C15_counterexample_criteria_map
#print axioms Vet.C15_counterexample_peer_cycle
#print axioms Vet.C06_cap
#print axioms Vet.C07_locked_excluded_refused
