import Vet.Props.Search
#print axioms Vet.search_minimax
#print axioms Vet.search_sound
