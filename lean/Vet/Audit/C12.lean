import Vet.Props.C12Prune
import Vet.Props.Resolve
import Vet.Props.Commands
import Vet.Props.WFCorollaries
#print axioms Vet.search_minimax
#print axioms Vet.C12_fully_only_if
#print axioms Vet.C12_fully_if
#print axioms Vet.C12_classes_partition
#print axioms Vet.C12_prune_exemption_needed_partial
#print axioms Vet.C12_command_exemption_needed_partial
#print axioms Vet.Cmd.prunesExemptionsOf_table
#print axioms Vet.Cmd_certify_example
#print axioms Vet.C12_command_exemption_needed_wf
