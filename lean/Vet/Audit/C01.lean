import Vet.Props.Resolve
#print axioms Vet.C01_sound
#print axioms Vet.C01_reported_path_is_chain
#print axioms Vet.search_sound
#print axioms Vet.search_fuel_enough
#print axioms Vet.build_sound
#print axioms Vet.build_mirror
