import Vet.Props.Search
#print axioms Vet.search_sound
#print axioms Vet.search_fuel_enough
