import Vet.Props.C17Heal
import Vet.Props.C17
#print axioms Vet.C17_candidate_connects
#print axioms Vet.C17_candidate_connects_git
#print axioms Vet.C17_recommendation_is_candidate
#print axioms Vet.C17_heals
#print axioms Vet.C17_monotone
#print axioms Vet.C17_certify_criteria
#print axioms Vet.C17_dedup_keeps_twin
#print axioms Vet.C17_fixed_dedup
#print axioms Vet.certChain_extends
#print axioms Vet.C17_all_heal
#print axioms Vet.C17_suggestions_serve
#print axioms Vet.C17_proposed_criteria_cover
