import Vet.Props.C17
#print axioms Vet.C17_candidate_connects
#print axioms Vet.C17_candidate_connects_git
#print axioms Vet.C17_recommendation_is_candidate
#print axioms Vet.C17_heals
#print axioms Vet.C17_monotone
#print axioms Vet.C17_certify_criteria
#print axioms Vet.C17_dedup_keeps_twin
#print axioms Vet.C17_fixed_dedup
