import Vet.Props.C08
import Vet.Props.C08Policies
import Vet.Props.C08Meta
#print axioms Vet.C08_registry_always
#print axioms Vet.C08_unpublished_choice
#print axioms Vet.C08_exact_iff
#print axioms Vet.C08_auditedAs_total
#print axioms Vet.C08_lock_entries_kept
#print axioms Vet.C08_new_entries_justified
#print axioms Vet.C08_refused_unknown
#print axioms Vet.C08_checks
#print axioms Vet.C08_stale_unpublished_kept
#print axioms Vet.C08_exact_version
#print axioms Vet.Pol.C08_crate_policies
#print axioms Vet.Pol.C08_crate_policies_impl
#print axioms Vet.Pol.checkImpl_nil_iff
#print axioms Vet.Pol.checkImpl_spurious_needsVersion
#print axioms Vet.Pol.crate_policies_example
#print axioms Vet.Reg.C08_considerSame_iff
#print axioms Vet.Reg.C08_same_description_matches
#print axioms Vet.Reg.C08_same_repository_matches
#print axioms Vet.Reg.C08_absent_fields_never_match
#print axioms Vet.Reg.C08_matching_copy_needs_choice
