import Vet.Props.C08
#print axioms Vet.C08_registry_always
#print axioms Vet.C08_unpublished_choice
#print axioms Vet.C08_exact_iff
#print axioms Vet.C08_auditedAs_total
#print axioms Vet.C08_lock_entries_kept
#print axioms Vet.C08_new_entries_justified
#print axioms Vet.C08_refused_unknown
#print axioms Vet.C08_checks
#print axioms Vet.C08_stale_unpublished_kept
#print axioms Vet.C08_exact_version
