import Vet.Props.C16
#print axioms Vet.Agg.C16_audits
#print axioms Vet.Agg.C16_wildcards
#print axioms Vet.Agg.C16_trusted
#print axioms Vet.Agg.C16_audits_order
#print axioms Vet.Agg.C16_audits_order_general
#print axioms Vet.Agg.C16_criteria
#print axioms Vet.Agg.C16_error_iff
