import Vet.Props.C13
#print axioms Vet.C13_counterexample_prune
#print axioms Vet.C13_clean_check_keeps_publishers
#print axioms Vet.C13_clean_check_keeps_local_audits
