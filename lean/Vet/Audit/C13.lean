import Vet.Props.C13Twice
import Vet.Props.C13
#print axioms Vet.C13_counterexample_prune
#print axioms Vet.C13_clean_check_keeps_publishers
#print axioms Vet.C13_clean_check_keeps_local_audits
#print axioms Vet.C13_check_twice_partial_v2
#print axioms Vet.C13_second_check_succeeds_partial
#print axioms Vet.C13_check_twice_partial_refuted
#print axioms Vet.C13_check_twice_partial_refuted_dup_rows
