import Vet.Props.C10Regen
import Vet.Props.C10
import Vet.Props.Commands
import Vet.Props.CommandsAsk
import Vet.Props.WFCorollaries
#print axioms Vet.C10_update_preserves_success_partial
#print axioms Vet.C10_no_new_conflict_partial
#print axioms Vet.C10_required_contains_path
#print axioms Vet.C10_chains_preserved
#print axioms Vet.C10_counterexample_duplicate_keys
#print axioms Vet.search_regenerate_total
#print axioms Vet.C10_regenerate_never_missing_partial
#print axioms Vet.C10_regenerate_chains_partial
#print axioms Vet.C10_commands_partial
#print axioms Vet.Cmd.mode_not_regenerate
#print axioms Vet.CertChain_ask_audit_mono
#print axioms Vet.C10_certify_ask_keeps_passing
#print axioms Vet.C10_commands_wf
#print axioms Vet.C10_certify_ask_keeps_passing_wf
#print axioms Vet.Store.ask_wf
#print axioms Vet.Store.wf_spec
#print axioms Vet.C10_certify_end_to_end_wf
