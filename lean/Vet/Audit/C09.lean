import Vet.Props.C10
#print axioms Vet.C09_check_then_locked_partial
#print axioms Vet.C10_chains_preserved
#print axioms Vet.C10_required_contains_path
