import Vet.Props.C10
import Vet.Props.Commands
import Vet.Props.WFCorollaries
#print axioms Vet.C09_check_then_locked_partial
#print axioms Vet.C10_chains_preserved
#print axioms Vet.C10_required_contains_path
#print axioms Vet.C09_failing_check_writes_nothing
#print axioms Vet.C09_check_run_partial
#print axioms Vet.C09_check_run_wf
