import Vet.Props.C04Keep
import Vet.Props.C04
import Vet.Props.C11Violation
#print axioms Vet.C04_exemption_conflict
#print axioms Vet.C04_audit_conflict
#print axioms Vet.C04_no_claiming_edge_partial
#print axioms Vet.C04_counterexample_wildcard
#print axioms Vet.C04_counterexample_trusted
#print axioms Vet.C04_counterexample_unpublished
#print axioms Vet.C04_update_keeps_violations
#print axioms Vet.C11_local_violations_kept
