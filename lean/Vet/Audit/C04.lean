import Vet.Props.C04Keep
import Vet.Props.C04
#print axioms Vet.C04_exemption_conflict
#print axioms Vet.C04_audit_conflict
#print axioms Vet.C04_no_claiming_edge_partial
#print axioms Vet.C04_counterexample_wildcard
#print axioms Vet.C04_counterexample_trusted
#print axioms Vet.C04_counterexample_unpublished
#print axioms Vet.C04_update_keeps_violations
