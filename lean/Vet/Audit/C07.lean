import Vet.Props.C07
import Vet.Props.C15
#print axioms Vet.C07_skip_local_append
#print axioms Vet.C07_skip_local_unparseable
#print axioms Vet.C07_skip_local_unknown_criteria
#print axioms Vet.C07_skip_local_wildcards
#print axioms Vet.C07_map
#print axioms Vet.C07_map_wildcard
#print axioms Vet.C07_exclude
#print axioms Vet.C07_multi_url
#print axioms Vet.C07_freshness_only_flags
#print axioms Vet.C07_locked_excluded_refused
