import Vet.Props.C14
#print axioms Vet.Serde.C14_strOrVec_roundtrip
#print axioms Vet.Serde.C14_strOrVec_injective
#print axioms Vet.Serde.C14_strOrVec_canonical
#print axioms Vet.Serde.C14_optStrOrVec_roundtrip
#print axioms Vet.Serde.C14_audit_roundtrip
#print axioms Vet.Serde.C14_audit_one_kind
#print axioms Vet.Serde.C14_policy_roundtrip
#print axioms Vet.Serde.C14_policy_empty_versioned_collapses
#print axioms Vet.Serde.C14_policy_mixed_refused
#print axioms Vet.Serde.C14_tidy_idem
#print axioms Vet.Serde.C14_tidy_no_empty
#print axioms Vet.Serde.C14_tidy_sorted
#print axioms Vet.Serde.C14_tidy_perm
