import Vet.Props.C11
#print axioms Vet.C11_local_audits
#print axioms Vet.C11_imports
#print axioms Vet.C11_publishers
#print axioms Vet.C11_stale_kept_partial
#print axioms Vet.C11_stale_kept_exists
#print axioms Vet.C11_exemptions_narrow_partial
#print axioms Vet.C11_exemptions_untouched_partial
#print axioms Vet.C11_no_fresh_exemption_partial
#print axioms Vet.C11_no_fresh_exemption_build
