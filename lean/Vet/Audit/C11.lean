import Vet.Props.C11
import Vet.Props.Commands
import Vet.Props.Renew
import Vet.Props.C11Violation
#print axioms Vet.C11_local_audits
#print axioms Vet.C11_imports
#print axioms Vet.C11_publishers
#print axioms Vet.C11_stale_kept_partial
#print axioms Vet.C11_stale_kept_exists
#print axioms Vet.C11_exemptions_narrow_partial
#print axioms Vet.C11_exemptions_untouched_partial
#print axioms Vet.C11_no_fresh_exemption_partial
#print axioms Vet.C11_no_fresh_exemption_build
#print axioms Vet.C11_cleanup_other_exemptions_partial
#print axioms Vet.C11_cleanup_other_audits
#print axioms Vet.C11_check_mode_audits
#print axioms Vet.Store.ask_frame
#print axioms Vet.Store.ask_audit_self
#print axioms Vet.Store.ask_audit_other
#print axioms Vet.Store.ask_exemption_self
#print axioms Vet.Store.ask_exemption_other
#print axioms Vet.Renew.C11_renew_expiring
#print axioms Vet.Renew.C11_renew_crate
#print axioms Vet.Renew.C06_renew_keeps_cap
#print axioms Vet.Renew.renew_example
#print axioms Vet.C11_local_violations_kept
#print axioms Vet.C11_fixed_violation_pruned
