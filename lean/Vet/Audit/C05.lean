import Vet.Props.C05
#print axioms Vet.C05_closure_spec
#print axioms Vet.C05_fromList_spec
#print axioms Vet.C05_fromList_perm_dup
#print axioms Vet.C05_fromList_closure
#print axioms Vet.C05_minimal_denotes
#print axioms Vet.C05_minimal_irredundant
#print axioms Vet.C05_fromList_closed
#print axioms Vet.C05_new_ok_iff
#print axioms Vet.C05_fromList_append
