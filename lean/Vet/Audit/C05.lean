import Vet.Props.C05
#print axioms Vet.C05_fromList_perm_dup
#print axioms Vet.C05_fromList_append
