import Vet.Props.C19
#print axioms Vet.Unpack.C19_confined_partial
#print axioms Vet.Unpack.C19_marker
#print axioms Vet.Unpack.C19_retry
#print axioms Vet.Unpack.C19_marker_partial
#print axioms Vet.Unpack.C19_retry_partial
#print axioms Vet.Unpack.C19_complete_is_ok_partial3
#print axioms Vet.Unpack.C19_complete_marker_dir_not_ok
#print axioms Vet.Unpack.C19_complete_is_ok_partial2_counterexample
#print axioms Vet.Unpack.C19_fixed_marker
#print axioms Vet.Unpack.C19_fixed_marker_symlink
#print axioms Vet.Unpack.C19_counterexample_symlink
