import Vet.Props.Build
import Vet.Props.C15
#print axioms Vet.C06_wildcard_edge_iff
#print axioms Vet.C06_trusted_edge_iff
#print axioms Vet.C06_other_crates_irrelevant
#print axioms Vet.build_sound
#print axioms Vet.C06_cap
