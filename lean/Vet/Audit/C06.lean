import Vet.Props.Build
import Vet.Props.C15
import Vet.Props.C06Publishers
#print axioms Vet.C06_wildcard_edge_iff
#print axioms Vet.C06_trusted_edge_iff
#print axioms Vet.C06_other_crates_irrelevant
#print axioms Vet.build_sound
#print axioms Vet.C06_cap
#print axioms Vet.Pub.C06_publishers
#print axioms Vet.Pub.C06_unknown_publisher_no_record
#print axioms Vet.Pub.C06_publisher_table_iff
#print axioms Vet.Pub.publishers_example
