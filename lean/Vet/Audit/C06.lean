import Vet.Props.Build
#print axioms Vet.C06_wildcard_edge_iff
#print axioms Vet.C06_trusted_edge_iff
#print axioms Vet.C06_other_crates_irrelevant
#print axioms Vet.build_sound
