import Vet.Model.Criteria
import Vet.Model.Graph
import Vet.Model.Store
import Vet.Model.AuditGraph
import Vet.Model.Search
import Vet.Model.Resolve
import Vet.Model.Update
import Vet.Model.Wire
